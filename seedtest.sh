#!/bin/bash
# seedtest.sh <seed-dir> <ID> [tier]: apply a seeded breaking change to /repo, run the check, undo it.
set -u
d="$(cd "$1" && pwd)"; id="$2"; tier="${3:-quick}"
cd /verif
git -C /repo diff --quiet || { echo "repo dirty"; exit 2; }
git -C /repo apply "$d/patch.diff" || { echo "patch does not apply"; exit 2; }
trap 'git -C /repo checkout -- . ; git -C /repo clean -fdq -- wow_world_messages wow_login_messages wow_message_parser wow_world_base wowm_language 2>/dev/null' EXIT
./check "$id" "$tier" 2>&1 | grep -E "^VIOLATION|^KNOWN|^runs=|HARNESS|^  oracle" | cut -c1-400 | head -20
echo "exit=${PIPESTATUS[0]}"
