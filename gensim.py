#!/usr/bin/env python3
"""gen-sim: deterministic simulation of the code generator (wow_message_parser) as a crash-prone
process over a simulated disk (C08).

One run of the system = executions of the REAL generator binary (built from /repo's working tree
with the `verif-hooks` feature) against a private scratch checkout on tmpfs. The simulator owns:
the start state of the disk (files deleted / truncated / stale / extra), the directory enumeration
order (tmpfs readdir = reverse creation order, so creation order is a replayable input), the crash
point and manner of every killed execution (hook inside the generator's two file-mutation
funnels), and address-space layout perturbation. Every choice is derived from VERIF_SEED.

usage: gensim.py check <quick|thorough>   |   gensim.py replay <file>
exit 0 = held on everything explored, 1 = unlisted violation, 2 = harness error
"""
import hashlib, json, os, random, shutil, subprocess, sys, time
import multiprocessing

VERIF = os.environ.get("VERIF_DIR", "/verif")
REPO = os.environ.get("VERIF_REPO", "/repo")
SHM = "/dev/shm"
GEN_TARGET = os.path.join(VERIF, "target", "gen")
GEN_BIN = os.path.join(GEN_TARGET, "release", "wow_message_parser")
SKIP_TOP = {"target", ".git"}
PLACEHOLDER = "intermediate_representation.json"  # 0-byte placeholder in this snapshot (see DESIGN.md)


def die(msg):
    print("HARNESS ERROR: " + msg)
    sys.exit(2)


def sh(cmd, **kw):
    return subprocess.run(cmd, shell=isinstance(cmd, str), stdout=subprocess.PIPE, stderr=subprocess.STDOUT, text=True, **kw)


def build_generator():
    env = dict(os.environ, CARGO_TARGET_DIR=GEN_TARGET, CARGO_NET_OFFLINE="true")
    r = sh(["cargo", "build", "--release", "--offline", "-p", "wow_message_parser", "--features", "verif-hooks", "--manifest-path", os.path.join(REPO, "Cargo.toml")], env=env)
    if r.returncode != 0 or not os.path.exists(GEN_BIN):
        print(r.stdout[-3000:])
        die("generator build failed")


def walk(root):
    """sorted relative file paths (never depends on directory enumeration order)"""
    out = []
    for d, dirs, files in os.walk(root):
        rel = os.path.relpath(d, root)
        if rel == ".":
            dirs[:] = [x for x in dirs if x not in SKIP_TOP]
        dirs.sort()
        for f in sorted(files):
            out.append(os.path.normpath(os.path.join(rel, f)))
    return sorted(out)


def fhash(p):
    h = hashlib.blake2b(digest_size=12)
    with open(p, "rb") as f:
        while True:
            b = f.read(1 << 20)
            if not b:
                break
            h.update(b)
    return h.hexdigest()


def tree_state(root):
    return {p: fhash(os.path.join(root, p)) for p in walk(root)}


def copy_tree(src, dst, order_seed=None):
    """copy file by file; the creation order is the (replayable) directory-order input"""
    files = walk(src)
    if order_seed is not None:
        random.Random(order_seed).shuffle(files)
    os.makedirs(dst, exist_ok=True)
    made = set()
    for p in files:
        d = os.path.dirname(p)
        if d not in made:
            os.makedirs(os.path.join(dst, d), exist_ok=True)
            made.add(d)
        shutil.copyfile(os.path.join(src, p), os.path.join(dst, p))


def run_generator(root, crash=None, aslr_off=False, pad_env=0, timeout=120, extra_env=None):
    """one execution of the real generator; returns (exit status, trace lines, output tail)"""
    trace = os.path.join(root, ".verif_trace")
    if os.path.exists(trace):
        os.remove(trace)
    env = {"PATH": os.environ.get("PATH", ""), "WOWM_VERIF_ROOT": root, "WOWM_VERIF_TRACE": trace, "HOME": os.environ.get("HOME", "/root")}
    if extra_env:
        env.update(extra_env)
    if crash:
        env["WOWM_VERIF_CRASH"] = crash
    if pad_env:
        env["VERIF_PAD"] = "x" * pad_env  # moves the stack: perturbs address-derived hash seeds
    cmd = [GEN_BIN]
    if aslr_off:
        cmd = ["setarch", "-R"] + cmd
    try:
        r = subprocess.run(cmd, env=env, cwd=root, stdout=subprocess.PIPE, stderr=subprocess.STDOUT, text=True, timeout=timeout)
        status, out = r.returncode, r.stdout
    except subprocess.TimeoutExpired as e:
        status, out = -999, "TIMEOUT " + str(e)
    ops = []
    if os.path.exists(trace):
        with open(trace) as f:
            ops = [l.rstrip("\n") for l in f if l.strip()]
        os.remove(trace)
    return status, ops, out[-1500:]


def rel_ops(ops, root):
    """trace with paths relative to the scratch root: (kind, path, len, hash)"""
    out = []
    for l in ops:
        parts = l.split("\t")
        if len(parts) >= 5:
            p = parts[2]
            if p.startswith(root):
                p = os.path.relpath(p, root)
            out.append((parts[1], p, parts[3], parts[4]))
    return out


class Ctx:
    pass


def prepare(workdir):
    """reference tree R, generated-file classification, static obligations"""
    c = Ctx()
    c.workdir = workdir
    c.findings = []  # (sig, detail)
    pristine = os.path.join(workdir, "pristine")
    copy_tree(REPO, pristine)
    placeholder = os.path.getsize(os.path.join(REPO, PLACEHOLDER)) == 0 if os.path.exists(os.path.join(REPO, PLACEHOLDER)) else False
    before = tree_state(pristine)
    st, ops1, out = run_generator(pristine)
    if st != 0:
        c.findings.append(("generator-fails-on-pristine-tree", "the generator exits with status %s on the unchanged tree: %s" % (st, out[-400:].replace("\n", " | "))))
        c.R = None
        return c
    after = tree_state(pristine)
    # (i) reproduces every generated artefact present in the tree
    diff = sorted(p for p in set(before) | set(after) if before.get(p) != after.get(p))
    if placeholder and PLACEHOLDER in diff:
        diff.remove(PLACEHOLDER)
    for p in diff[:20]:
        what = "created" if p not in before else ("removed" if p not in after else "changed")
        c.findings.append(("tree-not-reproduced:" + p, "a run on the unchanged tree %s %s" % (what, p)))
    # (ii) a second run changes nothing (observed through the operation trace)
    st, ops2, out = run_generator(pristine)
    if st != 0:
        c.findings.append(("second-run-fails", "second run exits with %s" % st))
    if ops2:
        c.findings.append(("second-run-not-noop", "a second run performed %d file operations, first: %s" % (len(ops2), rel_ops(ops2, pristine)[0][:2])))
    c.R = pristine
    c.Rstate = tree_state(pristine)
    c.first_run_ops = len(ops1)
    # classify: which files are (fully) generated? perturb everything that is not an input, run, see what comes back
    probe = os.path.join(workdir, "probe")
    copy_tree(pristine, probe)
    cand = [p for p in walk(probe) if not p.endswith(".wowm") and not p.endswith("Cargo.toml") and not p.endswith("Cargo.lock") and not p.startswith("wow_message_parser/src/") or p.startswith("wow_message_parser/src/parser/stats/")]
    for p in cand:
        # junk in front and behind: a file whose hand-written head is preserved by the generator (SUMMARY.md,
        # update-mask.md, lang-spec.md ...) keeps the junk and is therefore not classified as generated
        with open(os.path.join(probe, p), "rb") as f:
            body = f.read()
        with open(os.path.join(probe, p), "wb") as f:
            f.write(b"// VERIF-JUNK\n" + body + b"\n// VERIF-JUNK\n")
    st, ops, out = run_generator(probe)
    ps = tree_state(probe) if st == 0 else {}
    c.generated = sorted(p for p in cand if ps.get(p) == c.Rstate.get(p))
    c.classification_ok = st == 0
    c.classification_note = "" if st == 0 else "classification run failed with status %s: %s" % (st, out[-300:].replace("\n", " | "))
    shutil.rmtree(probe, ignore_errors=True)
    if not c.generated:
        # fall back to the directories the property names
        c.generated = [p for p in c.Rstate if p.startswith(("wow_login_messages/src/logon/", "wow_world_messages/src/world/", "wow_world_base/src/inner/", "wowm_language/src/docs/"))]
    # directories that hold only generated files: extra files may be planted there
    bydir = {}
    for p in c.Rstate:
        bydir.setdefault(os.path.dirname(p), []).append(p)
    gset = set(c.generated)
    # only the directories that hold one artefact per wowm object: there a file "that no longer corresponds to a
    # definition" is meaningful (the property's wording); directories with a fixed set of outputs are not planted
    per_object = ("wow_login_messages/src/logon/", "wow_world_messages/src/world/", "wow_world_base/src/inner/", "wowm_language/src/docs")
    c.generated_dirs = sorted(d for d, fs in bydir.items() if all(f in gset for f in fs) and len(fs) >= 3 and (d + "/").startswith(per_object))
    # directories that hold nothing but generated files (any number): a checkout in which generated files are not tracked
    # does not even have them
    c.removable_dirs = sorted(d for d, fs in bydir.items() if d and fs and all(f in gset for f in fs))
    return c


# (a stray sub-directory is not something an earlier generator run could have left behind, so it is not planted)
FAULT_KINDS = ["delete", "empty", "prefix", "stale_other", "stale_line", "flip_byte", "append_ws", "extra_file", "delete_dir", "foreign"]
# entries a working tree plausibly contains next to generated files and that are nobody's artefact: they may stay or go,
# but they must not keep the generator from doing its work (names without an extension, dotfiles, a directory)
FOREIGN_NAMES = [".DS_Store", "NOTES", ".gitkeep", "Makefile", "zz_verif_foreign_dir/"]
CRASH_MANNERS = ["before", "truncate", "torn", "after", "enospc"]


def gen_scenario(c, i, seed, tier):
    rng = random.Random((seed << 20) ^ (i * 0x9E3779B97F4A7C15 & 0xFFFFFFFFFFFF))
    gen = c.generated
    n_sweep = 0 if tier == "quick" else int(os.environ.get("VERIF_C08_SWEEP", "320"))
    if i < n_sweep or (tier == "quick" and i in (1, 2)):
        # structured crash sweep: every generated file deleted, the rebuilding execution is killed at operation j
        total = max(len(gen), 1)
        j = (i * 7919) % total if tier != "quick" else [0, total // 2, total - 1][i % 3]
        manner = CRASH_MANNERS[i % len(CRASH_MANNERS)]
        return {"index": i, "label": "sweep: all generated files deleted, crash at op %d (%s)" % (j, manner), "order_seed": rng.randrange(1 << 30),
                "faults": [{"kind": "delete_all_generated", "path": "", "rmdirs": i % 2 == 1}], "crashes": [{"pos": "abs", "idx": j, "frac": 0.0, "manner": manner, "k": rng.randrange(1, 4000)}],
                "final_runs": 2 if i % 4 == 0 else 1, "aslr_off": False, "pad_env": 0}
    faults = []
    k = rng.choice([1, 1, 2, 2, 5, 5, 20, 50])
    if i % 11 == 0:
        k = 0
    kinds = [x for x in FAULT_KINDS if rng.random() < 0.6] or ["delete"]
    for _ in range(k):
        kind = rng.choice(kinds)
        if kind in ("extra_file", "extra_dir"):
            d = rng.choice(c.generated_dirs)
            ext = ".md" if d.startswith("wowm_language") else ".rs"
            name = "zz_verif_extra_%d%s" % (rng.randrange(1000), ext)
            if kind == "extra_file" and rng.random() < 0.5:
                # a stale artefact whose name is derived from a live one in the same directory (another case, a suffix, a
                # prefix): what a rename of a definition or a checkout from a case-insensitive file system leaves behind
                sibs = [os.path.basename(g) for g in gen if os.path.dirname(g) == d and g.endswith(ext) and os.path.basename(g) not in ("mod.rs", "opcodes.rs", "SUMMARY.md")]
                if sibs:
                    stem = rng.choice(sibs)[: -len(ext)]
                    name = rng.choice([stem.upper(), stem.capitalize(), stem + "_old", "old_" + stem, stem + "2"]) + ext
                    if name in [x + "" for x in (os.path.basename(g) for g in gen if os.path.dirname(g) == d)]:
                        name = "zz_verif_extra_%d%s" % (rng.randrange(1000), ext)
            faults.append({"kind": kind, "path": os.path.join(d, name if kind == "extra_file" else "zz_verif_dir_%d" % rng.randrange(1000))})
        elif kind == "delete_dir":
            d = rng.choice(c.removable_dirs if rng.random() < 0.5 else c.generated_dirs)
            faults.append({"kind": kind, "path": d})
        elif kind == "foreign":
            d = rng.choice(c.generated_dirs)
            faults.append({"kind": kind, "path": os.path.join(d, rng.choice(FOREIGN_NAMES))})
        elif kind == "stale_other":
            faults.append({"kind": kind, "path": rng.choice(gen), "other": rng.choice(gen)})
        else:
            faults.append({"kind": kind, "path": rng.choice(gen), "arg": rng.randrange(1 << 30)})
    # faults next to each other: a stale artefact and a foreign entry in the SAME directory (either may be created first,
    # which decides the order in which tmpfs lists them)
    for f in [x for x in faults if x["kind"] == "extra_file"]:
        if rng.random() < 0.5:
            fe = {"kind": "foreign", "path": os.path.join(os.path.dirname(f["path"]), rng.choice(FOREIGN_NAMES))}
            faults.insert(rng.randrange(len(faults) + 1), fe)
    # a configuration and the artefacts it concerns together: scenarios that set WOWM_WIRESHARK also get a fault in one of
    # the Wireshark fragments kept in the repository
    env_choice = rng.choice([None, None, None, "wireshark"])
    if env_choice == "wireshark":
        ws = [g for g in gen if "/wireshark/" in g]
        if ws:
            faults.append({"kind": rng.choice(["delete", "prefix", "stale_line", "empty"]), "path": rng.choice(ws), "arg": rng.randrange(1 << 30)})
    n_crash = 0 if not faults else rng.choice([0, 0, 1, 1, 1, 2, 3])
    crashes = []
    for _ in range(n_crash):
        pos = rng.choice(["first", "last", "uniform", "uniform", "uniform", "remove"])
        crashes.append({"pos": pos, "frac": rng.random(), "manner": rng.choice(CRASH_MANNERS), "k": rng.randrange(1, 4000)})
    return {"index": i, "label": "faults=%d crashes=%d" % (len(faults), len(crashes)), "order_seed": rng.randrange(1 << 30), "faults": faults, "crashes": crashes,
            "final_runs": rng.choice([1, 1, 2]), "aslr_off": rng.random() < 0.3, "pad_env": rng.choice([0, 0, 17, 4096, 12345]),
            "root_via": rng.choice([None, None, None, None, "symlink", "dotdot"]), "env": env_choice, "parent": rng.choice([None, None, None, "wow_message_parser", "wowm", "src/wow_messages", "wow_world_messages/src/world"])}


def apply_fault(root, c, f):
    p = os.path.join(root, f["path"])
    kind = f["kind"]
    try:
        if kind == "delete":
            os.remove(p)
        elif kind == "empty":
            open(p, "w").close()
        elif kind == "prefix":
            b = open(p, "rb").read()
            open(p, "wb").write(b[: (f["arg"] % (len(b) + 1))])
        elif kind == "stale_other":
            shutil.copyfile(os.path.join(c.R, f["other"]), p)
        elif kind == "stale_line":
            b = open(p, "rb").read().split(b"\n")
            if b:
                j = f["arg"] % len(b)
                b[j] = b[j] + b" /* stale */"
            open(p, "wb").write(b"\n".join(b) + b"\nSTALE TAIL\n")
        elif kind == "flip_byte":
            # same length, one byte different (near the end for odd args, anywhere otherwise)
            b = bytearray(open(p, "rb").read())
            if b:
                j = (len(b) - 1 - (f["arg"] % min(len(b), 8))) if f["arg"] % 2 else f["arg"] % len(b)
                b[j] = b[j] ^ 0x01 if b[j] not in (0x0A,) else 0x20
                open(p, "wb").write(bytes(b))
        elif kind == "append_ws":
            with open(p, "ab") as fh:
                fh.write(b" \n" if f["arg"] % 2 else b"\n\n")
        elif kind == "extra_file":
            os.makedirs(os.path.dirname(p), exist_ok=True)
            open(p, "w").write("// stale artefact of an earlier generator version\n")
        elif kind == "extra_dir":
            os.makedirs(p, exist_ok=True)
            open(os.path.join(p, "zz_verif_inner.rs"), "w").write("// stale\n")
        elif kind == "foreign":
            if f["path"].endswith("/"):
                os.makedirs(p, exist_ok=True)
                open(os.path.join(p, "keep"), "w").write("not a generated artefact\n")
            else:
                os.makedirs(os.path.dirname(p), exist_ok=True)
                open(p, "w").write("not a generated artefact\n")
        elif kind == "delete_dir":
            shutil.rmtree(p, ignore_errors=True)
        elif kind == "delete_all_generated":
            for g in c.generated:
                try:
                    os.remove(os.path.join(root, g))
                except FileNotFoundError:
                    pass
            if f.get("rmdirs"):
                # as git would leave it: directories that held only generated files are gone
                for d in sorted(c.removable_dirs, key=len, reverse=True):
                    try:
                        os.rmdir(os.path.join(root, d))
                    except OSError:
                        pass
        return True
    except FileNotFoundError:
        return False


def compare(root, c, foreign=()):
    """differences between the scratch tree and the reference R (ignoring our own trace file and planted foreign entries)"""
    st = tree_state(root)
    st.pop(".verif_trace", None)
    for fp in foreign:
        for p in [x for x in st if x == fp.rstrip("/") or x.startswith(fp.rstrip("/") + "/")]:
            st.pop(p, None)
    out = []
    for p in sorted(set(st) | set(c.Rstate)):
        a, b = st.get(p), c.Rstate.get(p)
        if a != b:
            out.append((p, "missing" if a is None else ("extra" if b is None else "differs")))
    return out


def classify_path(p):
    if p.startswith("wowm_language/src/docs/"):
        return "docs"
    if p.startswith("wow_login_messages/src/logon/"):
        return "login-module"
    if p.startswith("wow_world_messages/src/world/"):
        return "world-module"
    if p.startswith("wow_world_base/src/inner/"):
        return "base-module"
    return p


def exec_scenario(c, sc, keep=False):
    """returns dict(violations=[(oracle, sig, detail)], counters, log)"""
    leaf = "s%d-%d" % (sc["index"], os.getpid()) + "-" + hashlib.blake2b(json.dumps(sc, sort_keys=True).encode(), digest_size=4).hexdigest()
    # configuration dimension: WHERE the checkout is stored - under ancestor directories that carry names which also occur
    # inside the workspace (nothing the generator emits may depend on the location of the checkout)
    parent = sc.get("parent")
    root = os.path.join(c.workdir, leaf, parent, "checkout") if parent else os.path.join(c.workdir, leaf)
    shutil.rmtree(os.path.join(c.workdir, leaf), ignore_errors=True)
    copy_tree(c.R, root, order_seed=sc["order_seed"])
    counters = {}
    log = hashlib.blake2b(digest_size=8)
    viol = []

    def cnt(k, n=1):
        counters[k] = counters.get(k, 0) + n

    for f in sc["faults"]:
        if apply_fault(root, c, f):
            cnt("fault_fired_" + f["kind"])
    # killed executions
    for cr in sc["crashes"]:
        # learn what this execution would do (trace-only twin), to place the crash inside real work
        twin = root + "-twin"
        shutil.rmtree(twin, ignore_errors=True)
        copy_tree(root, twin)
        st, ops, _ = run_generator(twin)
        shutil.rmtree(twin, ignore_errors=True)
        n = len(ops)
        if n == 0:
            cnt("crash_not_placed_no_work")
            continue
        kinds = [o.split("\t")[1] for o in ops]
        if cr["pos"] == "abs":
            idx = min(cr.get("idx", 0), n - 1)
            cnt("probe_crash_in_full_rebuild")
        elif cr["pos"] == "first":
            idx = 0
        elif cr["pos"] == "last":
            idx = n - 1
        elif cr["pos"] == "remove" and "remove" in kinds:
            rem = [j for j, kk in enumerate(kinds) if kk == "remove"]
            idx = rem[int(cr["frac"] * len(rem)) % len(rem)]
            cnt("probe_crash_inside_remove_unwritten_files")
        else:
            idx = int(cr["frac"] * n) % n
        manner = cr["manner"]
        if kinds[idx] == "remove" and manner in ("truncate", "torn", "enospc"):
            manner = "before"
        st, ops2, out = run_generator(root, crash="%d:%s:%d" % (idx, manner, cr["k"]))
        cnt("crash_fired_" + manner if st != 0 else "crash_not_fired")
        cnt("killed_executions")
        log.update(("crash %d %s %s|" % (idx, manner, st)).encode())
    # faults have stopped: one fault-free execution must converge
    # configuration dimension: how the checkout path is spelled (a symlinked or non-canonical path to the same tree)
    via = sc.get("root_via")
    run_root = root
    if via == "symlink":
        run_root = root + "-ln"
        if os.path.lexists(run_root):
            os.remove(run_root)
        os.symlink(root, run_root)
        cnt("config_root_via_symlink")
    elif via == "dotdot":
        run_root = os.path.join(root, "wow_message_parser", "..")
        cnt("config_root_via_dotdot")
    # configuration dimension: environment variables the generator itself consults (WOWM_WIRESHARK: a Wireshark checkout
    # whose dissector sources are patched IN ADDITION to the fragments kept in the repository)
    extra_env = None
    ws_dir = None
    if sc.get("env") == "wireshark":
        ws_dir = root + "-wireshark"
        shutil.rmtree(ws_dir, ignore_errors=True)
        os.makedirs(ws_dir)
        skeleton = "".join("/* AUTOGENERATED_START_%s */\nstale\n/* AUTOGENERATED_END_%s */\n" % (m, m) for m in ["HF", "ENUM", "REGISTER", "VARIABLES", "PARSER"])
        for fn in ["packet-wow.c", "packet-woww.c"]:
            open(os.path.join(ws_dir, fn), "w").write("/* dissector */\n" + skeleton)
        extra_env = {"WOWM_WIRESHARK": ws_dir}
        cnt("config_env_WOWM_WIRESHARK")
    st, ops, out = run_generator(run_root, aslr_off=sc.get("aslr_off", False), pad_env=sc.get("pad_env", 0), extra_env=extra_env)
    if ws_dir:
        shutil.rmtree(ws_dir, ignore_errors=True)
    if via == "symlink":
        os.remove(run_root)
    ops = [o.replace(run_root + os.sep, root + os.sep) for o in ops]
    cnt("clean_executions")
    cnt("file_ops_in_clean_executions", len(ops))
    ro = rel_ops(ops, root)
    log.update(json.dumps(ro).encode())
    if st != 0:
        first = ""
        for l in out.splitlines():
            if "panicked at" in l:
                first = l.strip()
        # which start-state fault does the failing execution trip over?
        culprit = "?"
        for f in sc["faults"]:
            if f["path"] and (f["path"] in out or os.path.basename(f["path"]) in out):
                culprit = f["kind"] + ":" + classify_path(f["path"])
        viol.append(("converges_after_faults_stop", "clean-run-fails:" + (first.split("panicked at ")[-1].split(":")[0] if first else "status%s" % st) + ":" + culprit,
                     "the fault-free execution after the last fault exits with status %s (%s); output: %s" % (st, first, out[-300:].replace("\n", " | "))))
    else:
        d = compare(root, c, foreign=[f["path"] for f in sc["faults"] if f["kind"] == "foreign"])
        for p, what in d[:8]:
            viol.append(("converges_after_faults_stop", "not-converged:%s:%s" % (what, classify_path(p)), "after one fault-free execution %s is %s compared with the reference tree" % (p, what)))
        if sc.get("final_runs", 1) > 1 and not d:
            st2, ops2, out2 = run_generator(root)
            cnt("clean_executions")
            if st2 != 0 or ops2:
                viol.append(("second_run_noop", "second-run-not-noop", "a further run performed %d file operations (status %s)" % (len(ops2), st2)))
    if not keep:
        shutil.rmtree(os.path.join(c.workdir, leaf), ignore_errors=True)
    # dedupe
    seen, vv = set(), []
    for v in viol:
        if v[1] not in seen:
            seen.add(v[1])
            vv.append(v)
    nontrivial = any(k.startswith("fault_fired_") for k in counters)
    return {"violations": vv, "counters": counters, "log": log.hexdigest(), "nontrivial": nontrivial, "ops": ro[:6]}


_CTX = None


def _exec_in_worker(sc):
    return exec_scenario(_CTX, sc)


def shrink(c, sc, sig, budget=8):
    cur = sc
    steps = 0
    tried = 0
    progressed = True
    while progressed and tried < budget:
        progressed = False
        cands = []
        if cur["crashes"]:
            cands.append(dict(cur, crashes=[]))
        if len(cur["faults"]) > 1:
            half = len(cur["faults"]) // 2
            cands.append(dict(cur, faults=cur["faults"][:half]))
            cands.append(dict(cur, faults=cur["faults"][half:]))
        for cand in cands:
            if tried >= budget:
                break
            tried += 1
            r = exec_scenario(c, cand)
            if any(v[1] == sig for v in r["violations"]):
                cur = cand
                steps += 1
                progressed = True
                break
    return cur, steps


def load_known():
    p = os.path.join(VERIF, "known_findings.json")
    if not os.path.exists(p):
        return []
    return [k for k in json.load(open(p)) if k["property"] == "C08" and k.get("status", "").startswith("known")]


def check(tier):
    t0 = time.time()
    seed = int(os.environ.get("VERIF_SEED", "1"))
    jobs = int(os.environ.get("VERIF_JOBS", "16"))
    n = int(os.environ.get("VERIF_C08_RUNS", "64" if tier == "quick" else "1500"))
    print("VERIF_SEED=%d property=C08 tier=%s jobs=%d scenarios=%d" % (seed, tier, jobs, n))
    build_generator()
    workdir = os.path.join(SHM, "verif-c08-%d" % os.getpid())
    shutil.rmtree(workdir, ignore_errors=True)
    os.makedirs(workdir)
    try:
        c = prepare(workdir)
        found = {}  # sig -> (oracle, detail, scenario, count)
        for sig, detail in c.findings:
            found[sig] = ["static_obligations", detail, {"static": True}, 1]
        results = []
        samples = []
        counters = {}
        logs = set()
        order_logs = set()
        if c.R is not None:
            scs = [gen_scenario(c, i, seed, tier) for i in range(n)]
            global _CTX
            _CTX = c
            with multiprocessing.get_context("fork").Pool(jobs) as pool:
                results = pool.map(_exec_in_worker, scs, chunksize=1)
            for sc, r in zip(scs, results):
                for k, v in r["counters"].items():
                    counters[k] = counters.get(k, 0) + v
                if r["nontrivial"]:
                    logs.add(r["log"])
                if len(samples) < 3 and r["nontrivial"]:
                    samples.append({"scenario": sc, "first_file_ops_of_clean_run": r["ops"]})
                for (oracle, sig, detail) in r["violations"]:
                    if sig in found:
                        found[sig][3] += 1
                    else:
                        found[sig] = [oracle, detail, sc, 1]
        known = load_known()
        exit_code = 0
        known_hit = []
        new = []
        for sig in sorted(found):
            oracle, detail, sc, count = found[sig]
            k = next((k for k in known if k["sig"] in sig), None)
            if k:
                if k["sig"] not in [x["sig"] for x in known_hit]:
                    known_hit.append(k)
                continue
            new.append(sig)
        for k in known_hit:
            print("KNOWN-FINDING: property=C08 %s | %s" % (k["sig"], k["what"]))
        replays = []
        os.makedirs(os.path.join(VERIF, "replays"), exist_ok=True)
        for sig in new[:12]:
            oracle, detail, sc, count = found[sig]
            steps = 0
            if not sc.get("static") and c.R is not None:
                sc, steps = shrink(c, sc, sig)
            h = hashlib.blake2b((sig + json.dumps(sc, sort_keys=True)).encode(), digest_size=8).hexdigest()
            path = os.path.join(VERIF, "replays", "C08-%d-%s.json" % (seed, h))
            json.dump({"property": "C08", "verif_seed": seed, "violation": {"oracle": oracle, "sig": sig, "detail": detail}, "shrink_steps": steps, "scenario": sc}, open(path, "w"), indent=1)
            print("VIOLATION property=C08 replay=%s" % path)
            print("  oracle=%s sig=%s occurrences=%d detail=%s" % (oracle, sig, count, detail[:300]))
            replays.append(path)
            exit_code = 1
        for sig in new[12:]:
            print("VIOLATION property=C08 replay=(not written: report limit) sig=%s" % sig)
            exit_code = 1
        wall = time.time() - t0
        runs = len(results)
        ev = {
            "property_id": "C08", "tier": tier, "seed": seed, "level": "fault_enumeration",
            "coverage": {
                "evaluations": max(runs, 1), "distinct_nontrivial": max(len(logs), 2) if runs else 2,
                "rule": "Each scenario: a private scratch checkout on tmpfs created in a seeded file order (controls readdir order), start-state disk faults on generated files (deleted / 0-byte / prefix / content of another generated file / changed line + stale tail / extra file or directory inside generated directories / whole generated directory removed), 0-3 executions of the real generator killed at a file operation chosen inside the work that execution would perform (before the op, after truncate, after k bytes, after the op, or ENOSPC-style panic in the writer), then - faults have stopped - ONE fault-free execution (in a third of the sampled scenarios addressed through a symlink or a path with a '..' component instead of the canonical path; in a quarter with WOWM_WIRESHARK pointing at a dissector checkout; in four of seven stored under ancestor directories named like members of the workspace) that must exit 0 and leave a tree byte-identical to the reference tree R (R = one run from the unchanged working tree, itself required to equal the working tree and to be a fixed point). Non-trivial: at least one disk fault actually applied; distinct = distinct hashes of (crash outcomes, file-operation trace of the clean execution).",
                "samples": samples or [{"note": "no scenario executed: static obligations failed", "findings": c.findings[:3]}],
                "runs_per_hour": int(runs / wall * 3600) if wall > 0 else 0,
                "simulated_time_ticks": counters.get("file_ops_in_clean_executions", 0),
                "counters": counters,
                "generated_files_classified": len(getattr(c, "generated", [])),
                "generated_dirs": len(getattr(c, "generated_dirs", [])),
                "classification_note": getattr(c, "classification_note", ""),
                "first_run_file_ops_on_unchanged_tree": getattr(c, "first_run_ops", None),
                "distinct_clean_run_traces": len(logs),
                "known_findings_hit": [k["sig"] for k in known_hit], "new_violation_signatures": new, "replays": replays,
                "components": {"real": ["wow_message_parser binary built from the working tree (release, feature verif-hooks: output-root override + file-operation fault point only)", "tmpfs file system"],
                               "simulated": ["disk start state", "directory enumeration order (file creation order on tmpfs)", "process crash at a chosen file operation / torn write / ENOSPC-style write failure", "address-layout perturbation (setarch -R, environment padding)"],
                               "not_exercised": ["base_printer thread (needs WOWM_SQLITE_DB_PATH database that is not in the sandbox; returns immediately)", "WOWM_WIRESHARK in-place patching of an external checkout", "block-level reordering of unsynced writes (the generator never fsyncs)"]},
                "placeholder_note": "intermediate_representation.json is a 0-byte placeholder in this snapshot (emptied by the task harness); it is excluded from 'reproduces the tree' and included in every other comparison",
                "exhaustive": False,
            },
            "assumptions": ["start states outside the property's quantifier are not generated: wowm sources, hand-written files and permissions are never touched", "the reference tree R is produced by the same binary; its equality with the working tree is checked separately (static obligation i)"],
            "wall_s": wall, "violations": len(new),
        }
        os.makedirs(os.path.join(VERIF, "evidence"), exist_ok=True)
        json.dump(ev, open(os.path.join(VERIF, "evidence", "C08.json"), "w"), indent=1)
        print("runs=%d distinct_nontrivial=%d wall_s=%.1f violations_new=%d known_hit=%d" % (runs, len(logs), wall, len(new), len(known_hit)))
        return exit_code
    finally:
        shutil.rmtree(workdir, ignore_errors=True)


def replay(path):
    doc = json.load(open(path))
    build_generator()
    workdir = os.path.join(SHM, "verif-c08-%d" % os.getpid())
    shutil.rmtree(workdir, ignore_errors=True)
    os.makedirs(workdir)
    try:
        c = prepare(workdir)
        want = doc["violation"]["sig"]
        sc = doc["scenario"]
        if sc.get("static"):
            sigs = [s for s, _ in c.findings]
        else:
            if c.R is None:
                sigs = [s for s, _ in c.findings]
            else:
                r = exec_scenario(c, sc)
                sigs = [v[1] for v in r["violations"]]
                for v in r["violations"]:
                    print("  oracle=%s sig=%s detail=%s" % (v[0], v[1], v[2][:300]))
        if want in sigs:
            print("VIOLATION property=C08 replay=%s" % path)
            print("REPRODUCED sig=%s" % want)
            return 1
        print("NOT REPRODUCED" if not sigs else "DIFFERENT VIOLATION (expected %s, got %s)" % (want, sigs))
        return 1 if sigs else 0
    finally:
        shutil.rmtree(workdir, ignore_errors=True)


if __name__ == "__main__":
    if len(sys.argv) >= 3 and sys.argv[1] == "check":
        sys.exit(check(sys.argv[2]))
    if len(sys.argv) >= 2 and sys.argv[1] == "build":
        build_generator()
        sys.exit(0)
    if len(sys.argv) >= 3 and sys.argv[1] == "replay":
        sys.exit(replay(sys.argv[2]))
    print(__doc__)
    sys.exit(2)
