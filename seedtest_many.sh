#!/bin/bash
# seedtest_many.sh <seed-dir>:<ID> ...   apply each seeded change in turn, run the check, undo; one final rebuild
set -u
cd /verif
git -C /repo diff --quiet || { echo "repo dirty"; exit 2; }
for arg in "$@"; do
  d="$(cd "${arg%%:*}" && pwd)"; id="${arg##*:}"
  echo "=== $arg"
  git -C /repo apply "$d/patch.diff" || { echo "patch does not apply"; continue; }
  ./check "$id" quick 2>&1 | grep -E "^VIOLATION|^runs=|HARNESS|^  oracle" | cut -c1-380 | head -12
  git -C /repo checkout -- .
done
git -C /repo status --short | head -3
./check build >/dev/null 2>&1
echo ALLDONE
