#!/bin/bash
# lab.sh: an independent copy of /repo (git worktree) and of the harness under /tmp/seedlab, so that seeded
# changes can be tested without touching /repo or /verif/target.
#   lab.sh sync                      refresh the lab's repo worktree to /repo's HEAD and copy the current harness sources
#   lab.sh test <seed-dir>:<ID> ...  apply each seeded change to the lab repo in turn, run the lab's quick check, undo
#   lab.sh clean                     remove the lab
set -u
LAB=${LAB_DIR:-/tmp/seedlab}
case "${1:-}" in
  sync)
    mkdir -p $LAB
    if [ ! -d $LAB/repo ]; then git -C /repo worktree add -q --detach $LAB/repo HEAD; else git -C $LAB/repo checkout -q -- . ; git -C $LAB/repo checkout -q --detach "$(git -C /repo rev-parse HEAD)"; fi
    mkdir -p $LAB/verif
    rsync -a --delete --exclude target --exclude replays --exclude work --exclude .git --exclude evidence /verif/ $LAB/verif/
    sed -i "s|path = \"/repo/|path = \"$LAB/repo/|g" $LAB/verif/sim/Cargo.toml $LAB/verif/sim/glue/Cargo.toml
    sed -i "s|target-dir = \"/verif/target\"|target-dir = \"$LAB/target\"|" $LAB/verif/sim/.cargo/config.toml
    sed -i "s|target/debug/wowsim|$LAB/target/debug/wowsim|g; s|\[ ! -x target/debug/wowsim \]|[ ! -x $LAB/target/debug/wowsim ]|" $LAB/verif/check
    sed -i "s|GEN_TARGET = os.path.join(VERIF, \"target\", \"gen\")|GEN_TARGET = \"$LAB/target/gen\"|" $LAB/verif/gensim.py
    echo synced at $(git -C $LAB/repo rev-parse --short HEAD)
    ;;
  test)
    shift
    export VERIF_REPO=$LAB/repo VERIF_DIR=$LAB/verif
    cd $LAB/verif
    for arg in "$@"; do
      d="$(cd "${arg%%:*}" && pwd)"; id="${arg##*:}"
      echo "=== $arg"
      git -C $LAB/repo checkout -q -- .
      git -C $LAB/repo apply "$d/patch.diff" || { echo "patch does not apply"; continue; }
      ./check "$id" quick 2>&1 | grep -E "^VIOLATION|^KNOWN|^runs=|HARNESS|^  oracle" | cut -c1-360 | head -14
      git -C $LAB/repo checkout -q -- .
      git -C $LAB/repo clean -fdq -- wow_world_messages wow_login_messages wow_message_parser wow_world_base wowm_language 2>/dev/null
    done
    echo LABDONE
    ;;
  testall)
    # apply ONE change, run every check against it, undo (for behaviour-preserving changes: every check must stay silent)
    shift
    export VERIF_REPO=$LAB/repo VERIF_DIR=$LAB/verif
    cd $LAB/verif
    for arg in "$@"; do
      d="$(cd "$arg" && pwd)"
      echo "=== $arg (all checks)"
      git -C $LAB/repo checkout -q -- .
      git -C $LAB/repo apply "$d/patch.diff" || { echo "patch does not apply"; continue; }
      for id in C02 C03 C04 C05 C06 C13 C08; do
        echo "--- $id"
        ./check "$id" quick 2>&1 | grep -E "^VIOLATION|^runs=|HARNESS|^  oracle" | cut -c1-360 | head -8
      done
      git -C $LAB/repo checkout -q -- .
      git -C $LAB/repo clean -fdq -- wow_world_messages wow_login_messages wow_message_parser wow_world_base wowm_language 2>/dev/null
    done
    echo LABDONE
    ;;
  clean)
    git -C /repo worktree remove --force $LAB/repo 2>/dev/null; rm -rf $LAB; git -C /repo worktree prune ;;
  *) echo "usage: lab.sh sync | test <seed-dir>:<ID> ... | testall <dir> ... | clean"; exit 2 ;;
esac
