#!/bin/bash
# selftest.sh determinism [IDs...]: every wire-sim check is run with 16 workers and with 3 workers (and
# twice with 16) from separate processes; the event-log digests (XOR over runs of FNV(run index,
# event-log hash of every transport call / oracle verdict, number of violations)) must be identical.
# A mismatch is a harness error (exit 2), never a property verdict.
set -u
cd "$(dirname "$0")"
mode="${1:-determinism}"; shift || true
ids="${*:-C02 C03 C04 C05 C06 C13}"
if [ "$mode" = supervisor ]; then ./check build >/dev/null || exit 2; exec target/debug/wowsim selftest-supervisor; fi
[ "$mode" = determinism ] || { echo "usage: selftest.sh determinism [IDs] | supervisor"; exit 2; }
./check build >/dev/null || exit 2
rc=0
for id in $ids; do
  d=()
  for jobs in 16 3 16; do
    VERIF_DIR=/tmp/verif-selftest-$$ VERIF_JOBS=$jobs VERIF_MAX_REPORT=0 sh -c "mkdir -p /tmp/verif-selftest-$$ && cp known_findings.json /tmp/verif-selftest-$$/ && target/debug/wowsim check $id quick" >/tmp/verif-selftest-$$.log 2>&1
    d+=("$(python3 -c "import json;print(json.load(open('/tmp/verif-selftest-$$/evidence/$id.json'))['coverage']['event_log_digest'])")")
  done
  if [ "${d[0]}" = "${d[1]}" ] && [ "${d[0]}" = "${d[2]}" ]; then echo "$id deterministic: digest ${d[0]} (jobs 16, 3, 16)"; else echo "HARNESS ERROR: $id digests differ: ${d[*]}"; rc=2; fi
done
rm -rf /tmp/verif-selftest-$$ /tmp/verif-selftest-$$.log
exit $rc
