//! Adapter to the real UpdateMask API: all generated typed accessors (dispatch table from
//! build.rs), dirty tracking, and transport inside SMSG_UPDATE_OBJECT (server -> client replica).

use crate::model::Exp;

#[derive(Clone, Debug, PartialEq)]
pub enum Arg {
    I(i32),
    F(f32),
    G(u64),
    B(u8, u8, u8, u8),
    S(u16, u16),
    /// (item slot, guid) for the per-slot guid array
    SG(u8, u64),
}

#[derive(Clone, Debug, PartialEq)]
pub enum Got {
    Absent,
    I(i32),
    F(u32), // bit pattern
    G(u64),
    B(u8, u8, u8, u8),
    S(u16, u16),
}

include!(concat!(env!("OUT_DIR"), "/um_dispatch.rs"));

pub fn um_setters(exp: Exp) -> &'static [(&'static str, &'static str, &'static str)] {
    match exp {
        Exp::Vanilla => UM_SETTERS_VANILLA,
        Exp::Tbc => UM_SETTERS_TBC,
        Exp::Wrath => UM_SETTERS_WRATH,
    }
}

pub fn um_skipped(exp: Exp) -> usize {
    match exp {
        Exp::Vanilla => UM_SKIPPED_VANILLA,
        Exp::Tbc => UM_SKIPPED_TBC,
        Exp::Wrath => UM_SKIPPED_WRATH,
    }
}

pub fn um_set(exp: Exp, m: &mut AnyMask, name: &str, a: &Arg) -> bool {
    match exp {
        Exp::Vanilla => um_set_vanilla(m, name, a),
        Exp::Tbc => um_set_tbc(m, name, a),
        Exp::Wrath => um_set_wrath(m, name, a),
    }
}

pub fn um_bset(exp: Exp, m: AnyBuilder, name: &str, a: &Arg) -> Result<AnyBuilder, AnyBuilder> {
    match exp {
        Exp::Vanilla => um_bset_vanilla(m, name, a),
        Exp::Tbc => um_bset_tbc(m, name, a),
        Exp::Wrath => um_bset_wrath(m, name, a),
    }
}

pub fn um_get(exp: Exp, m: &AnyMask, name: &str, slot: u8) -> Option<Got> {
    match exp {
        Exp::Vanilla => um_get_vanilla(m, name, slot),
        Exp::Tbc => um_get_tbc(m, name, slot),
        Exp::Wrath => um_get_wrath(m, name, slot),
    }
}

/// server side: put the mask into an SMSG_UPDATE_OBJECT (Values block for `guid`) and write it with
/// the library's writer; returns the whole message bytes
pub fn um_send(exp: Exp, m: &AnyMask, guid: u64) -> Option<Result<Vec<u8>, String>> {
    let g = wow_world_messages::Guid::new(guid);
    let mut v = Vec::new();
    let r = match exp {
        Exp::Vanilla => {
            use wow_world_messages::vanilla::*;
            let msg = SMSG_UPDATE_OBJECT { has_transport: 0, objects: vec![Object::Values { guid1: g, mask1: um_into_vanilla(m)? }] };
            msg.write_unencrypted_server(&mut v)
        }
        Exp::Tbc => {
            use wow_world_messages::tbc::*;
            let msg = SMSG_UPDATE_OBJECT { has_transport: 0, objects: vec![Object::Values { guid1: g, mask1: um_into_tbc(m)? }] };
            msg.write_unencrypted_server(&mut v)
        }
        Exp::Wrath => {
            use wow_world_messages::wrath::*;
            let msg = SMSG_UPDATE_OBJECT { objects: vec![Object::Values { guid1: g, mask1: um_into_wrath(m)? }] };
            msg.write_unencrypted_server(&mut v)
        }
    };
    Some(r.map(|_| v).map_err(|e| format!("{:?}", e.kind())))
}

/// client side: decode an SMSG_UPDATE_OBJECT with the library's reader and return the mask of the first Values block
pub fn um_receive(exp: Exp, bytes: &[u8]) -> Result<(u64, AnyMask), String> {
    match exp {
        Exp::Vanilla => {
            use wow_world_messages::vanilla::opcodes::ServerOpcodeMessage as T;
            use wow_world_messages::vanilla::*;
            match T::read_unencrypted(bytes) {
                Ok(T::SMSG_UPDATE_OBJECT(m)) => match m.objects.into_iter().next() {
                    Some(Object::Values { guid1, mask1 }) => Ok((guid1.guid(), um_from_vanilla(mask1))),
                    _ => Err("no Values block".into()),
                },
                Ok(o) => Err(format!("other message {}", o)),
                Err(e) => Err(crate::world::errsig_world(&e).short()),
            }
        }
        Exp::Tbc => {
            use wow_world_messages::tbc::opcodes::ServerOpcodeMessage as T;
            use wow_world_messages::tbc::*;
            match T::read_unencrypted(bytes) {
                Ok(T::SMSG_UPDATE_OBJECT(m)) => match m.objects.into_iter().next() {
                    Some(Object::Values { guid1, mask1 }) => Ok((guid1.guid(), um_from_tbc(mask1))),
                    _ => Err("no Values block".into()),
                },
                Ok(o) => Err(format!("other message {}", o)),
                Err(e) => Err(crate::world::errsig_world(&e).short()),
            }
        }
        Exp::Wrath => {
            use wow_world_messages::wrath::opcodes::ServerOpcodeMessage as T;
            use wow_world_messages::wrath::*;
            match T::read_unencrypted(bytes) {
                Ok(T::SMSG_UPDATE_OBJECT(m)) => match m.objects.into_iter().next() {
                    Some(Object::Values { guid1, mask1 }) => Ok((guid1.guid(), um_from_wrath(mask1))),
                    _ => Err("no Values block".into()),
                },
                Ok(o) => Err(format!("other message {}", o)),
                Err(e) => Err(crate::world::errsig_world(&e).short()),
            }
        }
    }
}

/// the size the library declares for the carrying message (header excluded), through the public trait
pub fn um_declared_size(exp: Exp, m: &AnyMask, guid: u64) -> Option<u32> {
    use wow_world_messages::Message;
    let g = wow_world_messages::Guid::new(guid);
    Some(match exp {
        Exp::Vanilla => {
            use wow_world_messages::vanilla::*;
            SMSG_UPDATE_OBJECT { has_transport: 0, objects: vec![Object::Values { guid1: g, mask1: um_into_vanilla(m)? }] }.size_without_header()
        }
        Exp::Tbc => {
            use wow_world_messages::tbc::*;
            SMSG_UPDATE_OBJECT { has_transport: 0, objects: vec![Object::Values { guid1: g, mask1: um_into_tbc(m)? }] }.size_without_header()
        }
        Exp::Wrath => {
            use wow_world_messages::wrath::*;
            SMSG_UPDATE_OBJECT { objects: vec![Object::Values { guid1: g, mask1: um_into_wrath(m)? }] }.size_without_header()
        }
    })
}

/// body written by the library without going through the header/assert path
pub fn um_body(exp: Exp, m: &AnyMask, guid: u64) -> Option<Vec<u8>> {
    use wow_world_messages::Message;
    let g = wow_world_messages::Guid::new(guid);
    let mut v = Vec::new();
    match exp {
        Exp::Vanilla => {
            use wow_world_messages::vanilla::*;
            SMSG_UPDATE_OBJECT { has_transport: 0, objects: vec![Object::Values { guid1: g, mask1: um_into_vanilla(m)? }] }.write_into_vec(&mut v).ok()?
        }
        Exp::Tbc => {
            use wow_world_messages::tbc::*;
            SMSG_UPDATE_OBJECT { has_transport: 0, objects: vec![Object::Values { guid1: g, mask1: um_into_tbc(m)? }] }.write_into_vec(&mut v).ok()?
        }
        Exp::Wrath => {
            use wow_world_messages::wrath::*;
            SMSG_UPDATE_OBJECT { objects: vec![Object::Values { guid1: g, mask1: um_into_wrath(m)? }] }.write_into_vec(&mut v).ok()?
        }
    };
    Some(v)
}
