//! Adapter to the real UpdateMask API: all generated typed accessors (dispatch table from
//! build.rs), dirty tracking, and transport inside SMSG_UPDATE_OBJECT (server -> client replica).

use crate::model::Exp;

#[derive(Clone, Debug, PartialEq)]
pub enum Arg {
    I(i32),
    F(f32),
    G(u64),
    B(u8, u8, u8, u8),
    S(u16, u16),
    /// (item slot, guid) for the per-slot guid array
    SG(u8, u64),
}

#[derive(Clone, Debug, PartialEq)]
pub enum Got {
    Absent,
    I(i32),
    F(u32), // bit pattern
    G(u64),
    B(u8, u8, u8, u8),
    S(u16, u16),
}

include!(concat!(env!("OUT_DIR"), "/um_dispatch.rs"));

pub fn um_setters(exp: Exp) -> &'static [(&'static str, &'static str, &'static str)] {
    match exp {
        Exp::Vanilla => UM_SETTERS_VANILLA,
        Exp::Tbc => UM_SETTERS_TBC,
        Exp::Wrath => UM_SETTERS_WRATH,
    }
}

pub fn um_skipped(exp: Exp) -> usize {
    match exp {
        Exp::Vanilla => UM_SKIPPED_VANILLA,
        Exp::Tbc => UM_SKIPPED_TBC,
        Exp::Wrath => UM_SKIPPED_WRATH,
    }
}

pub fn um_set(exp: Exp, m: &mut AnyMask, name: &str, a: &Arg) -> bool {
    match exp {
        Exp::Vanilla => um_set_vanilla(m, name, a),
        Exp::Tbc => um_set_tbc(m, name, a),
        Exp::Wrath => um_set_wrath(m, name, a),
    }
}

pub fn um_bset(exp: Exp, m: AnyBuilder, name: &str, a: &Arg) -> Result<AnyBuilder, AnyBuilder> {
    match exp {
        Exp::Vanilla => um_bset_vanilla(m, name, a),
        Exp::Tbc => um_bset_tbc(m, name, a),
        Exp::Wrath => um_bset_wrath(m, name, a),
    }
}

pub fn um_get(exp: Exp, m: &AnyMask, name: &str, slot: u8) -> Option<Got> {
    match exp {
        Exp::Vanilla => um_get_vanilla(m, name, slot),
        Exp::Tbc => um_get_tbc(m, name, slot),
        Exp::Wrath => um_get_wrath(m, name, slot),
    }
}

/// server side: put the mask into an SMSG_UPDATE_OBJECT (Values block for `guid`) and write it with
/// the library's writer; returns the whole message bytes
pub fn um_send(exp: Exp, m: &AnyMask, guid: u64) -> Option<Result<Vec<u8>, String>> {
    let g = wow_world_messages::Guid::new(guid);
    let mut v = Vec::new();
    let r = match exp {
        Exp::Vanilla => {
            use wow_world_messages::vanilla::*;
            let msg = SMSG_UPDATE_OBJECT { has_transport: 0, objects: vec![Object::Values { guid1: g, mask1: um_into_vanilla(m)? }] };
            msg.write_unencrypted_server(&mut v)
        }
        Exp::Tbc => {
            use wow_world_messages::tbc::*;
            let msg = SMSG_UPDATE_OBJECT { has_transport: 0, objects: vec![Object::Values { guid1: g, mask1: um_into_tbc(m)? }] };
            msg.write_unencrypted_server(&mut v)
        }
        Exp::Wrath => {
            use wow_world_messages::wrath::*;
            let msg = SMSG_UPDATE_OBJECT { objects: vec![Object::Values { guid1: g, mask1: um_into_wrath(m)? }] };
            msg.write_unencrypted_server(&mut v)
        }
    };
    Some(r.map(|_| v).map_err(|e| format!("{:?}", e.kind())))
}

/// client side: decode an SMSG_UPDATE_OBJECT with the library's reader and return the mask of the first Values block
pub fn um_receive(exp: Exp, bytes: &[u8]) -> Result<(u64, AnyMask), String> {
    match exp {
        Exp::Vanilla => {
            use wow_world_messages::vanilla::opcodes::ServerOpcodeMessage as T;
            use wow_world_messages::vanilla::*;
            match T::read_unencrypted(bytes) {
                Ok(T::SMSG_UPDATE_OBJECT(m)) => match m.objects.into_iter().next() {
                    Some(Object::Values { guid1, mask1 }) => Ok((guid1.guid(), um_from_vanilla(mask1))),
                    _ => Err("no Values block".into()),
                },
                Ok(o) => Err(format!("other message {}", o)),
                Err(e) => Err(crate::world::errsig_world(&e).short()),
            }
        }
        Exp::Tbc => {
            use wow_world_messages::tbc::opcodes::ServerOpcodeMessage as T;
            use wow_world_messages::tbc::*;
            match T::read_unencrypted(bytes) {
                Ok(T::SMSG_UPDATE_OBJECT(m)) => match m.objects.into_iter().next() {
                    Some(Object::Values { guid1, mask1 }) => Ok((guid1.guid(), um_from_tbc(mask1))),
                    _ => Err("no Values block".into()),
                },
                Ok(o) => Err(format!("other message {}", o)),
                Err(e) => Err(crate::world::errsig_world(&e).short()),
            }
        }
        Exp::Wrath => {
            use wow_world_messages::wrath::opcodes::ServerOpcodeMessage as T;
            use wow_world_messages::wrath::*;
            match T::read_unencrypted(bytes) {
                Ok(T::SMSG_UPDATE_OBJECT(m)) => match m.objects.into_iter().next() {
                    Some(Object::Values { guid1, mask1 }) => Ok((guid1.guid(), um_from_wrath(mask1))),
                    _ => Err("no Values block".into()),
                },
                Ok(o) => Err(format!("other message {}", o)),
                Err(e) => Err(crate::world::errsig_world(&e).short()),
            }
        }
    }
}

/// the size the library declares for the carrying message (header excluded), through the public trait
pub fn um_declared_size(exp: Exp, m: &AnyMask, guid: u64) -> Option<u32> {
    use wow_world_messages::Message;
    let g = wow_world_messages::Guid::new(guid);
    Some(match exp {
        Exp::Vanilla => {
            use wow_world_messages::vanilla::*;
            SMSG_UPDATE_OBJECT { has_transport: 0, objects: vec![Object::Values { guid1: g, mask1: um_into_vanilla(m)? }] }.size_without_header()
        }
        Exp::Tbc => {
            use wow_world_messages::tbc::*;
            SMSG_UPDATE_OBJECT { has_transport: 0, objects: vec![Object::Values { guid1: g, mask1: um_into_tbc(m)? }] }.size_without_header()
        }
        Exp::Wrath => {
            use wow_world_messages::wrath::*;
            SMSG_UPDATE_OBJECT { objects: vec![Object::Values { guid1: g, mask1: um_into_wrath(m)? }] }.size_without_header()
        }
    })
}

/// body written by the library without going through the header/assert path
pub fn um_body(exp: Exp, m: &AnyMask, guid: u64) -> Option<Vec<u8>> {
    use wow_world_messages::Message;
    let g = wow_world_messages::Guid::new(guid);
    let mut v = Vec::new();
    match exp {
        Exp::Vanilla => {
            use wow_world_messages::vanilla::*;
            SMSG_UPDATE_OBJECT { has_transport: 0, objects: vec![Object::Values { guid1: g, mask1: um_into_vanilla(m)? }] }.write_into_vec(&mut v).ok()?
        }
        Exp::Tbc => {
            use wow_world_messages::tbc::*;
            SMSG_UPDATE_OBJECT { has_transport: 0, objects: vec![Object::Values { guid1: g, mask1: um_into_tbc(m)? }] }.write_into_vec(&mut v).ok()?
        }
        Exp::Wrath => {
            use wow_world_messages::wrath::*;
            SMSG_UPDATE_OBJECT { objects: vec![Object::Values { guid1: g, mask1: um_into_wrath(m)? }] }.write_into_vec(&mut v).ok()?
        }
    };
    Some(v)
}

// ---------------------------------------------------------------------------------------------
// structured accessors (visible item, skill info): set / get round trip through the typed API

macro_rules! structured {
    ($e:ident, $variant:ident, $mk_vi:expr) => {
        pub mod $e {
            use super::*;
            use wow_world_messages::$e as L;

            pub fn skill(n: u32) -> L::Skill {
                for c in [6u16, 8, 26, 38, 39, 40, 43, 44, 45, 46, 54, 55, 95] {
                    let c = c + 0 * (n as u16);
                    if let Ok(s) = L::Skill::try_from(c) {
                        if n % 13 == (c as u32) % 13 || c == 95 {
                            return s;
                        }
                    }
                }
                L::Skill::try_from(6u16).unwrap_or_default()
            }

            /// returns (Debug of the value set, Debug of what the getter returns afterwards, Debug of the getter of a neighbour index)
            pub fn visible_item(m: &mut AnyMask, idx: u8, n: u32, neighbour: u8) -> Option<(String, String, String)> {
                let AnyMask::$variant(x) = m else { return None };
                let i = L::VisibleItemIndex::try_from(idx).ok()?;
                let j = L::VisibleItemIndex::try_from(neighbour).ok()?;
                let v: L::VisibleItem = $mk_vi(n);
                x.set_player_visible_item(v, i);
                let i = L::VisibleItemIndex::try_from(idx).ok()?;
                Some((format!("{:?}", Some(v)), format!("{:?}", x.player_visible_item(i)), format!("{:?}", x.player_visible_item(j))))
            }

            pub fn get_visible_item(m: &AnyMask, idx: u8) -> Option<String> {
                let AnyMask::$variant(x) = m else { return None };
                let i = L::VisibleItemIndex::try_from(idx).ok()?;
                Some(format!("{:?}", x.player_visible_item(i)))
            }

            pub fn skill_info(m: &mut AnyMask, idx: u16, n: u32, neighbour: u16) -> Option<(String, String, String)> {
                let AnyMask::$variant(x) = m else { return None };
                let i = L::SkillInfoIndex::try_from(idx).ok()?;
                let j = L::SkillInfoIndex::try_from(neighbour).ok()?;
                let v = L::SkillInfo::new(skill(n), n as u16, (n >> 3) as u16 | 1, (n >> 5) as u16 | 2, (n >> 7) as u16 | 4, (n >> 9) as u16 | 8);
                x.set_player_skill_info(v, i);
                let i = L::SkillInfoIndex::try_from(idx).ok()?;
                Some((format!("{:?}", Some(v)), format!("{:?}", x.player_skill_info(i)), format!("{:?}", x.player_skill_info(j))))
            }

            pub fn get_skill_info(m: &AnyMask, idx: u16) -> Option<String> {
                let AnyMask::$variant(x) = m else { return None };
                let i = L::SkillInfoIndex::try_from(idx).ok()?;
                Some(format!("{:?}", x.player_skill_info(i)))
            }
        }
    };
}

structured!(vanilla, VANILLAPlayer, |n: u32| wow_world_messages::vanilla::VisibleItem::new(wow_world_messages::Guid::new(((n as u64) << 32) | 0x0101), n | 1, [n ^ 0x55, n.rotate_left(7) | 2], n.rotate_left(13) | 4, n.rotate_left(19) | 8));
structured!(tbc, TBCPlayer, |n: u32| wow_world_messages::tbc::VisibleItem::new(wow_world_messages::Guid::new(((n as u64) << 32) | 0x0101), n | 1, [n ^ 0x55, n.rotate_left(3) | 2, n.rotate_left(5) | 2, n.rotate_left(7) | 2, n.rotate_left(9) | 2, n.rotate_left(11) | 2], n.rotate_left(13) | 4, n.rotate_left(19) | 8));
structured!(wrath, WRATHPlayer, |n: u32| wow_world_messages::wrath::VisibleItem::new(n | 1, [(n >> 3) as u16 | 2, (n >> 9) as u16 | 4]));

/// (set value, getter result, neighbour getter result) as Debug strings
pub fn um_struct_set(exp: Exp, m: &mut AnyMask, which: &str, idx: u16, n: u32, neighbour: u16) -> Option<(String, String, String)> {
    match (exp, which) {
        (Exp::Vanilla, "visible_item") => vanilla::visible_item(m, idx as u8, n, neighbour as u8),
        (Exp::Tbc, "visible_item") => tbc::visible_item(m, idx as u8, n, neighbour as u8),
        (Exp::Wrath, "visible_item") => wrath::visible_item(m, idx as u8, n, neighbour as u8),
        (Exp::Vanilla, "skill_info") => vanilla::skill_info(m, idx, n, neighbour),
        (Exp::Tbc, "skill_info") => tbc::skill_info(m, idx, n, neighbour),
        (Exp::Wrath, "skill_info") => wrath::skill_info(m, idx, n, neighbour),
        _ => None,
    }
}

pub fn um_struct_get(exp: Exp, m: &AnyMask, which: &str, idx: u16) -> Option<String> {
    match (exp, which) {
        (Exp::Vanilla, "visible_item") => vanilla::get_visible_item(m, idx as u8),
        (Exp::Tbc, "visible_item") => tbc::get_visible_item(m, idx as u8),
        (Exp::Wrath, "visible_item") => wrath::get_visible_item(m, idx as u8),
        (Exp::Vanilla, "skill_info") => vanilla::get_skill_info(m, idx),
        (Exp::Tbc, "skill_info") => tbc::get_skill_info(m, idx),
        (Exp::Wrath, "skill_info") => wrath::get_skill_info(m, idx),
        _ => None,
    }
}

/// object kind of a mask value ("Item", "Container", ...)
pub fn um_kind(m: &AnyMask) -> String {
    let d = format!("{:?}", m);
    let head = d.split('(').next().unwrap_or("");
    head.trim_start_matches("VANILLA").trim_start_matches("TBC").trim_start_matches("WRATH").to_string()
}
