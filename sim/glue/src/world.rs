//! Adapter between the simulator and the *real* world-message library: every public reader and
//! writer entry point of `wow_world_messages`, for 3 expansions x 2 directions x 3 flavours,
//! plain and encrypted, driven over SimPipe.

use crate::model::{Dir, Exp};
use crate::pipe::{block_on, SimReader, SimWriter};
use serde::{Deserialize, Serialize};
use std::error::Error;
use wow_world_messages::errors::ExpectedOpcodeError;

#[derive(Clone, Copy, Debug, PartialEq, Eq, Serialize, Deserialize, PartialOrd, Ord, Hash)]
pub enum Flavour {
    Sync,
    Tokio,
    Astd,
}
impl Flavour {
    pub const ALL: [Flavour; 3] = [Flavour::Sync, Flavour::Tokio, Flavour::Astd];
    pub fn name(self) -> &'static str {
        match self {
            Flavour::Sync => "sync",
            Flavour::Tokio => "tokio",
            Flavour::Astd => "astd",
        }
    }
}

#[derive(Clone, Debug, PartialEq, Eq, Serialize, Deserialize, PartialOrd, Ord, Hash)]
pub struct ErrSig {
    pub outer: String,
    pub kind: String,
    pub detail: String,
}
impl ErrSig {
    pub fn short(&self) -> String {
        format!("{}/{}/{}", self.outer, self.kind, self.detail)
    }
}

fn debug_kind(dbg: &str) -> String {
    // "... kind: Variant(..." or "kind: Variant }" or "kind: Variant,"
    if let Some(i) = dbg.rfind("kind: ") {
        let rest = &dbg[i + 6..];
        let end = rest.find(|c: char| !(c.is_alphanumeric() || c == '_')).unwrap_or(rest.len());
        rest[..end].to_string()
    } else {
        "?".into()
    }
}

pub fn errsig_world(e: &ExpectedOpcodeError) -> ErrSig {
    match e {
        ExpectedOpcodeError::Opcode { opcode, .. } => ErrSig { outer: "Opcode".into(), kind: "".into(), detail: format!("{}", opcode) },
        ExpectedOpcodeError::Io(io) => ErrSig { outer: "Io".into(), kind: format!("{:?}", io.kind()), detail: "".into() },
        ExpectedOpcodeError::Parse(p) => {
            let dbg = format!("{:?}", p);
            // the ParseError Debug prints `kind: <ParseErrorKind Debug>` last
            let kind = {
                if let Some(i) = dbg.find(", kind: ") {
                    let rest = &dbg[i + 8..];
                    let end = rest.find(|c: char| !(c.is_alphanumeric() || c == '_')).unwrap_or(rest.len());
                    rest[..end].to_string()
                } else {
                    debug_kind(&dbg)
                }
            };
            let mut detail = String::new();
            if let Some(src) = p.source() {
                if let Some(en) = src.downcast_ref::<wow_world_messages::errors::EnumError>() {
                    detail = format!("{}", en.value);
                } else if let Some(io) = src.downcast_ref::<std::io::Error>() {
                    detail = format!("{:?}", io.kind());
                }
            }
            ErrSig { outer: "Parse".into(), kind, detail }
        }
    }
}

macro_rules! any_msg {
    ($($v:ident => $m:ident :: $t:ident),*) => {
        #[derive(Clone, Debug, PartialEq)]
        pub enum AnyMsg { $($v(Box<wow_world_messages::$m::opcodes::$t>)),* }
        impl AnyMsg {
            pub fn name(&self) -> String { match self { $(AnyMsg::$v(m) => m.to_string()),* } }
            pub fn debug(&self) -> String { match self { $(AnyMsg::$v(m) => format!("{:?}", m)),* } }
        }
    };
}
any_msg!(VC => vanilla::ClientOpcodeMessage, VS => vanilla::ServerOpcodeMessage,
         TC => tbc::ClientOpcodeMessage, TS => tbc::ServerOpcodeMessage,
         WC => wrath::ClientOpcodeMessage, WS => wrath::ServerOpcodeMessage);

impl AnyMsg {
    pub fn exp_dir(&self) -> (Exp, Dir) {
        match self {
            AnyMsg::VC(_) => (Exp::Vanilla, Dir::Client),
            AnyMsg::VS(_) => (Exp::Vanilla, Dir::Server),
            AnyMsg::TC(_) => (Exp::Tbc, Dir::Client),
            AnyMsg::TS(_) => (Exp::Tbc, Dir::Server),
            AnyMsg::WC(_) => (Exp::Wrath, Dir::Client),
            AnyMsg::WS(_) => (Exp::Wrath, Dir::Server),
        }
    }
    /// value equality that tolerates NaN: PartialEq or identical Debug rendering
    pub fn same(&self, other: &AnyMsg) -> bool {
        self == other || self.debug() == other.debug()
    }
}

/// header cipher halves (real wow_srp code, trusted)
pub enum DecHalf {
    V(wow_srp::vanilla_header::DecrypterHalf),
    T(wow_srp::tbc_header::DecrypterHalf),
    WS(wow_srp::wrath_header::ServerDecrypterHalf),
    WC(wow_srp::wrath_header::ClientDecrypterHalf),
}
pub enum EncHalf {
    V(wow_srp::vanilla_header::EncrypterHalf),
    T(wow_srp::tbc_header::EncrypterHalf),
    WS(wow_srp::wrath_header::ServerEncrypterHalf),
    WC(wow_srp::wrath_header::ClientEncrypterHalf),
}

impl DecHalf {
    pub fn decrypt(&mut self, data: &mut [u8]) {
        match self {
            DecHalf::V(d) => d.decrypt(data),
            DecHalf::T(d) => d.decrypt(data),
            DecHalf::WS(d) => d.decrypt(data),
            DecHalf::WC(d) => d.decrypt(data),
        }
    }
}
impl EncHalf {
    pub fn encrypt(&mut self, data: &mut [u8]) {
        match self {
            EncHalf::V(d) => d.encrypt(data),
            EncHalf::T(d) => d.encrypt(data),
            EncHalf::WS(d) => d.encrypt(data),
            EncHalf::WC(d) => d.encrypt(data),
        }
    }
}

/// the four halves of one session
pub struct SessionCrypto {
    pub client_enc: EncHalf,
    pub client_dec: DecHalf,
    pub server_enc: EncHalf,
    pub server_dec: DecHalf,
}

pub fn session_crypto(exp: Exp, key: [u8; 40]) -> SessionCrypto {
    let user = wow_srp::normalized_string::NormalizedString::new("A").unwrap();
    match exp {
        Exp::Vanilla => {
            use wow_srp::vanilla_header::ProofSeed;
            let server_seed = ProofSeed::new();
            let client_seed = ProofSeed::new();
            let cs = client_seed.seed();
            let (proof, c) = client_seed.into_client_header_crypto(&user, key, server_seed.seed());
            let s = server_seed.into_server_header_crypto(&user, key, proof, cs).expect("proof");
            let (ce, cd) = c.split();
            let (se, sd) = s.split();
            SessionCrypto { client_enc: EncHalf::V(ce), client_dec: DecHalf::V(cd), server_enc: EncHalf::V(se), server_dec: DecHalf::V(sd) }
        }
        Exp::Tbc => {
            use wow_srp::tbc_header::ProofSeed;
            let server_seed = ProofSeed::new();
            let client_seed = ProofSeed::new();
            let cs = client_seed.seed();
            let (proof, c) = client_seed.into_client_header_crypto(&user, key, server_seed.seed());
            let s = server_seed.into_server_header_crypto(&user, key, proof, cs).expect("proof");
            let (ce, cd) = c.split();
            let (se, sd) = s.split();
            SessionCrypto { client_enc: EncHalf::T(ce), client_dec: DecHalf::T(cd), server_enc: EncHalf::T(se), server_dec: DecHalf::T(sd) }
        }
        Exp::Wrath => {
            use wow_srp::wrath_header::ProofSeed;
            let server_seed = ProofSeed::new();
            let client_seed = ProofSeed::new();
            let cs = client_seed.seed();
            let (proof, c) = client_seed.into_client_header_crypto(&user, key, server_seed.seed());
            let s = server_seed.into_server_header_crypto(&user, key, proof, cs).expect("proof");
            let (ce, cd) = c.split();
            let (se, sd) = s.split();
            SessionCrypto { client_enc: EncHalf::WC(ce), client_dec: DecHalf::WC(cd), server_enc: EncHalf::WS(se), server_dec: DecHalf::WS(sd) }
        }
    }
}

pub struct ReadOut {
    pub result: Result<AnyMsg, ErrSig>,
    pub polls: u64,
    pub budget_exceeded: bool,
}

macro_rules! read_body {
    ($m:ident, $t:ident, $av:ident, $dv:ident, $fl:expr, $dec:expr, $rd:expr, $budget:expr) => {{
        use wow_world_messages::$m::opcodes::$t as T;
        let mut polls = 0u64;
        let mut exceeded = false;
        let r: Result<T, ExpectedOpcodeError> = match ($fl, $dec) {
            (Flavour::Sync, None) => T::read_unencrypted(&mut *$rd),
            (Flavour::Sync, Some(DecHalf::$dv(d))) => T::read_encrypted(&mut *$rd, d),
            (Flavour::Tokio, None) => match block_on(T::tokio_read_unencrypted(&mut *$rd), $budget) {
                Ok((r, p)) => {
                    polls = p;
                    r
                }
                Err(b) => {
                    polls = b.polls;
                    exceeded = true;
                    Err(ExpectedOpcodeError::Io(std::io::Error::new(std::io::ErrorKind::Other, "BUDGET")))
                }
            },
            (Flavour::Tokio, Some(DecHalf::$dv(d))) => match block_on(T::tokio_read_encrypted(&mut *$rd, d), $budget) {
                Ok((r, p)) => {
                    polls = p;
                    r
                }
                Err(b) => {
                    polls = b.polls;
                    exceeded = true;
                    Err(ExpectedOpcodeError::Io(std::io::Error::new(std::io::ErrorKind::Other, "BUDGET")))
                }
            },
            (Flavour::Astd, None) => match block_on(T::astd_read_unencrypted(&mut *$rd), $budget) {
                Ok((r, p)) => {
                    polls = p;
                    r
                }
                Err(b) => {
                    polls = b.polls;
                    exceeded = true;
                    Err(ExpectedOpcodeError::Io(std::io::Error::new(std::io::ErrorKind::Other, "BUDGET")))
                }
            },
            (Flavour::Astd, Some(DecHalf::$dv(d))) => match block_on(T::astd_read_encrypted(&mut *$rd, d), $budget) {
                Ok((r, p)) => {
                    polls = p;
                    r
                }
                Err(b) => {
                    polls = b.polls;
                    exceeded = true;
                    Err(ExpectedOpcodeError::Io(std::io::Error::new(std::io::ErrorKind::Other, "BUDGET")))
                }
            },
            #[allow(unreachable_patterns)]
            _ => panic!("HARNESS: cipher half of the wrong kind"),
        };
        ReadOut { result: r.map(|m| AnyMsg::$av(Box::new(m))).map_err(|e| errsig_world(&e)), polls, budget_exceeded: exceeded }
    }};
}

/// read one message through the opcode-enum reader
pub fn read_enum(exp: Exp, dir: Dir, fl: Flavour, dec: Option<&mut DecHalf>, rd: &mut SimReader<'_>, budget: u64) -> ReadOut {
    match (exp, dir) {
        (Exp::Vanilla, Dir::Client) => read_body!(vanilla, ClientOpcodeMessage, VC, V, fl, dec, rd, budget),
        (Exp::Vanilla, Dir::Server) => read_body!(vanilla, ServerOpcodeMessage, VS, V, fl, dec, rd, budget),
        (Exp::Tbc, Dir::Client) => read_body!(tbc, ClientOpcodeMessage, TC, T, fl, dec, rd, budget),
        (Exp::Tbc, Dir::Server) => read_body!(tbc, ServerOpcodeMessage, TS, T, fl, dec, rd, budget),
        (Exp::Wrath, Dir::Client) => read_body!(wrath, ClientOpcodeMessage, WC, WS, fl, dec, rd, budget),
        (Exp::Wrath, Dir::Server) => read_body!(wrath, ServerOpcodeMessage, WS, WC, fl, dec, rd, budget),
    }
}

pub struct WriteOut {
    pub result: Result<(), String>,
    pub polls: u64,
    pub budget_exceeded: bool,
}

macro_rules! write_body {
    ($m:expr, $ev:ident, $un:ident, $en:ident, $tun:ident, $ten:ident, $aun:ident, $aen:ident, $fl:expr, $enc:expr, $w:expr, $budget:expr) => {{
        let mut polls = 0u64;
        let mut exceeded = false;
        let mut run = |r: Result<(std::io::Result<()>, u64), crate::pipe::BudgetExceeded>| match r {
            Ok((r, p)) => {
                polls = p;
                r
            }
            Err(b) => {
                polls = b.polls;
                exceeded = true;
                Err(std::io::Error::new(std::io::ErrorKind::Other, "BUDGET"))
            }
        };
        let r: std::io::Result<()> = match ($fl, $enc) {
            (Flavour::Sync, None) => $m.$un(&mut *$w),
            (Flavour::Sync, Some(EncHalf::$ev(e))) => $m.$en(&mut *$w, e),
            (Flavour::Tokio, None) => run(block_on($m.$tun(&mut *$w), $budget)),
            (Flavour::Tokio, Some(EncHalf::$ev(e))) => run(block_on($m.$ten(&mut *$w, e), $budget)),
            (Flavour::Astd, None) => run(block_on($m.$aun(&mut *$w), $budget)),
            (Flavour::Astd, Some(EncHalf::$ev(e))) => run(block_on($m.$aen(&mut *$w, e), $budget)),
            #[allow(unreachable_patterns)]
            _ => panic!("HARNESS: cipher half of the wrong kind"),
        };
        WriteOut { result: r.map_err(|e| format!("{:?}", e.kind())), polls, budget_exceeded: exceeded }
    }};
}

/// write one message through the opcode enum's writer (dispatches to the message's own, possibly overridden, implementation)
pub fn write_enum(msg: &AnyMsg, fl: Flavour, enc: Option<&mut EncHalf>, w: &mut SimWriter<'_>, budget: u64) -> WriteOut {
    match msg {
        AnyMsg::VC(m) => write_body!(m, V, write_unencrypted_client, write_encrypted_client, tokio_write_unencrypted_client, tokio_write_encrypted_client, astd_write_unencrypted_client, astd_write_encrypted_client, fl, enc, w, budget),
        AnyMsg::VS(m) => write_body!(m, V, write_unencrypted_server, write_encrypted_server, tokio_write_unencrypted_server, tokio_write_encrypted_server, astd_write_unencrypted_server, astd_write_encrypted_server, fl, enc, w, budget),
        AnyMsg::TC(m) => write_body!(m, T, write_unencrypted_client, write_encrypted_client, tokio_write_unencrypted_client, tokio_write_encrypted_client, astd_write_unencrypted_client, astd_write_encrypted_client, fl, enc, w, budget),
        AnyMsg::TS(m) => write_body!(m, T, write_unencrypted_server, write_encrypted_server, tokio_write_unencrypted_server, tokio_write_encrypted_server, astd_write_unencrypted_server, astd_write_encrypted_server, fl, enc, w, budget),
        AnyMsg::WC(m) => write_body!(m, WC, write_unencrypted_client, write_encrypted_client, tokio_write_unencrypted_client, tokio_write_encrypted_client, astd_write_unencrypted_client, astd_write_encrypted_client, fl, enc, w, budget),
        AnyMsg::WS(m) => write_body!(m, WS, write_unencrypted_server, write_encrypted_server, tokio_write_unencrypted_server, tokio_write_encrypted_server, astd_write_unencrypted_server, astd_write_encrypted_server, fl, enc, w, budget),
    }
}

/// convenience: sync write to a Vec
pub fn write_plain(msg: &AnyMsg) -> Result<Vec<u8>, String> {
    let s = crate::pipe::Schedule::whole();
    let mut w = SimWriter::new(&s);
    let o = write_enum(msg, Flavour::Sync, None, &mut w, 0);
    o.result.map(|_| w.data)
}

/// convenience: sync read from a slice, whole buffer
pub fn read_plain(exp: Exp, dir: Dir, bytes: &[u8]) -> (Result<AnyMsg, ErrSig>, usize) {
    let s = crate::pipe::Schedule::whole();
    let mut r = SimReader::new(bytes, &s);
    let o = read_enum(exp, dir, Flavour::Sync, None, &mut r, 0);
    (o.result, r.consumed())
}

// ---------------------------------------------------------------------------------------------
// typed expect helpers for every message type (dispatch table generated by build.rs)

macro_rules! run_async {
    ($fut:expr, $budget:expr, $polls:ident, $exceeded:ident) => {
        match block_on($fut, $budget) {
            Ok((r, p)) => {
                $polls = p;
                r
            }
            Err(b) => {
                $polls = b.polls;
                $exceeded = true;
                Err(ExpectedOpcodeError::Io(std::io::Error::new(std::io::ErrorKind::Other, "BUDGET")))
            }
        }
    };
}

macro_rules! expect_fns {
    (client, $m:ident, $ty:ident, $dv:ident, $is_async:expr, $fl:expr, $dec:expr, $rd:expr, $budget:expr, $polls:ident, $exceeded:ident, $honoured:ident) => {{
        use wow_world_messages::$m as L;
        match ($fl, $dec, $is_async) {
            (Flavour::Tokio, None, true) => run_async!(L::tokio_expect_client_message::<L::$ty, _>(&mut *$rd), $budget, $polls, $exceeded),
            (Flavour::Tokio, Some(DecHalf::$dv(d)), true) => run_async!(L::tokio_expect_client_message_encryption::<L::$ty, _>(&mut *$rd, d), $budget, $polls, $exceeded),
            (Flavour::Astd, None, true) => run_async!(L::astd_expect_client_message::<L::$ty, _>(&mut *$rd), $budget, $polls, $exceeded),
            (Flavour::Astd, Some(DecHalf::$dv(d)), true) => run_async!(L::astd_expect_client_message_encryption::<L::$ty, _>(&mut *$rd, d), $budget, $polls, $exceeded),
            (f, None, _) => {
                $honoured = f == Flavour::Sync;
                L::expect_client_message::<L::$ty, _>(&mut *$rd)
            }
            (f, Some(DecHalf::$dv(d)), _) => {
                $honoured = f == Flavour::Sync;
                L::expect_client_message_encryption::<L::$ty, _>(&mut *$rd, d)
            }
            #[allow(unreachable_patterns)]
            _ => panic!("HARNESS: cipher half of the wrong kind"),
        }
    }};
    (server, $m:ident, $ty:ident, $dv:ident, $is_async:expr, $fl:expr, $dec:expr, $rd:expr, $budget:expr, $polls:ident, $exceeded:ident, $honoured:ident) => {{
        use wow_world_messages::$m as L;
        match ($fl, $dec, $is_async) {
            (Flavour::Tokio, None, true) => run_async!(L::tokio_expect_server_message::<L::$ty, _>(&mut *$rd), $budget, $polls, $exceeded),
            (Flavour::Tokio, Some(DecHalf::$dv(d)), true) => run_async!(L::tokio_expect_server_message_encryption::<L::$ty, _>(&mut *$rd, d), $budget, $polls, $exceeded),
            (Flavour::Astd, None, true) => run_async!(L::astd_expect_server_message::<L::$ty, _>(&mut *$rd), $budget, $polls, $exceeded),
            (Flavour::Astd, Some(DecHalf::$dv(d)), true) => run_async!(L::astd_expect_server_message_encryption::<L::$ty, _>(&mut *$rd, d), $budget, $polls, $exceeded),
            (f, None, _) => {
                $honoured = f == Flavour::Sync;
                L::expect_server_message::<L::$ty, _>(&mut *$rd)
            }
            (f, Some(DecHalf::$dv(d)), _) => {
                $honoured = f == Flavour::Sync;
                L::expect_server_message_encryption::<L::$ty, _>(&mut *$rd, d)
            }
            #[allow(unreachable_patterns)]
            _ => panic!("HARNESS: cipher half of the wrong kind"),
        }
    }};
}

macro_rules! expect_body {
    ($m:ident, $ty:ident, $opty:ident, $av:ident, $dv:ident, $dir:ident, $is_async:expr, $fl:expr, $dec:expr, $rd:expr, $budget:expr) => {{
        let mut polls = 0u64;
        let mut exceeded = false;
        let mut honoured = true;
        let r: Result<wow_world_messages::$m::$ty, ExpectedOpcodeError> =
            expect_fns!($dir, $m, $ty, $dv, $is_async, $fl, $dec, $rd, $budget, polls, exceeded, honoured);
        (
            ReadOut {
                result: r.map(|m| AnyMsg::$av(Box::new(wow_world_messages::$m::opcodes::$opty::from(m)))).map_err(|e| errsig_world(&e)),
                polls,
                budget_exceeded: exceeded,
            },
            honoured,
        )
    }};
}

include!(concat!(env!("OUT_DIR"), "/world_dispatch.rs"));

/// typed expect helper for message type `name`; returns None if the name is unknown for (exp, dir);
/// the bool says whether the requested flavour was honoured (async flavours are instantiated for a subset of types)
pub fn read_expect(exp: Exp, dir: Dir, name: &str, fl: Flavour, dec: Option<&mut DecHalf>, rd: &mut SimReader<'_>, budget: u64) -> Option<(ReadOut, bool)> {
    match (exp, dir) {
        (Exp::Vanilla, Dir::Client) => expect_vanilla_client(name, fl, dec, rd, budget),
        (Exp::Vanilla, Dir::Server) => expect_vanilla_server(name, fl, dec, rd, budget),
        (Exp::Tbc, Dir::Client) => expect_tbc_client(name, fl, dec, rd, budget),
        (Exp::Tbc, Dir::Server) => expect_tbc_server(name, fl, dec, rd, budget),
        (Exp::Wrath, Dir::Client) => expect_wrath_client(name, fl, dec, rd, budget),
        (Exp::Wrath, Dir::Server) => expect_wrath_server(name, fl, dec, rd, budget),
    }
}

pub fn type_names(exp: Exp, dir: Dir) -> &'static [&'static str] {
    match (exp, dir) {
        (Exp::Vanilla, Dir::Client) => NAMES_VANILLA_CLIENT,
        (Exp::Vanilla, Dir::Server) => NAMES_VANILLA_SERVER,
        (Exp::Tbc, Dir::Client) => NAMES_TBC_CLIENT,
        (Exp::Tbc, Dir::Server) => NAMES_TBC_SERVER,
        (Exp::Wrath, Dir::Client) => NAMES_WRATH_CLIENT,
        (Exp::Wrath, Dir::Server) => NAMES_WRATH_SERVER,
    }
}
