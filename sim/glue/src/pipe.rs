//! SimPipe: the simulator-owned transport. One reader type and one writer type that implement the
//! blocking, tokio and futures-io (async-std) I/O traits over an in-memory byte string and follow
//! an explicit schedule. No real sockets, no clocks, no randomness inside: everything the pipe
//! does is decided by the `Step` list in the scenario.

use crate::rng::{Fnv, Rng};
use serde::{Deserialize, Serialize};
use std::io;
use std::pin::Pin;
use std::task::{Context, Poll};

#[derive(Clone, Copy, Debug, PartialEq, Eq, Serialize, Deserialize)]
pub enum Step {
    /// deliver / accept at most n bytes (at least 1 if any are available)
    Chunk(u32),
    /// return Poll::Pending this many times (async only; ignored by the blocking traits)
    Pending(u32),
    /// return ErrorKind::Interrupted once (blocking traits only; ignored by async traits)
    Interrupted,
}

#[derive(Clone, Debug, Default, Serialize, Deserialize, PartialEq)]
pub struct Schedule {
    pub steps: Vec<Step>,
    /// after the steps are used up: deliver everything (0) or keep delivering chunks of this size
    pub tail_chunk: u32,
    /// after the steps are used up: Pending this many times before every tail chunk (async only)
    #[serde(default)]
    pub tail_pending: u32,
    /// wake the task immediately when returning Pending (true) or let the executor wake it on its next tick (false)
    pub wake_now: bool,
}

impl Schedule {
    pub fn whole() -> Self {
        Schedule { steps: vec![], tail_chunk: 0, tail_pending: 0, wake_now: true }
    }
    pub fn bytewise(pending_each: u32) -> Self {
        Schedule { steps: vec![], tail_chunk: 1, tail_pending: pending_each, wake_now: false }
    }
    /// single split at k with one Pending at the split
    pub fn split_at(k: u32) -> Self {
        Schedule { steps: vec![Step::Chunk(k), Step::Pending(1)], tail_chunk: 0, tail_pending: 0, wake_now: false }
    }
    pub fn random(rng: &mut Rng, total: usize, allow_interrupt: bool) -> Self {
        let style = rng.below(6);
        let max_chunk: u32 = match style {
            0 => 1,
            1 => 2,
            2 => 3,
            3 => 7,
            4 => 64,
            _ => (total as u32).max(1),
        };
        let pend_density = rng.below(4); // 0 none, 1 sparse, 2 medium, 3 every step
        let mut steps = Vec::new();
        let mut left = total as i64;
        let mut guard = 0;
        while left > 0 && guard < 4096 {
            guard += 1;
            let p = match pend_density {
                0 => false,
                1 => rng.chance(1, 8),
                2 => rng.chance(1, 3),
                _ => true,
            };
            if p {
                steps.push(Step::Pending(1 + rng.below(3) as u32));
            }
            if allow_interrupt && rng.chance(1, 10) {
                steps.push(Step::Interrupted);
            }
            let n = 1 + rng.below(max_chunk as u64) as u32;
            steps.push(Step::Chunk(n));
            left -= n as i64;
        }
        Schedule { steps, tail_chunk: if rng.chance(1, 2) { 0 } else { max_chunk }, tail_pending: if rng.chance(1, 4) { 1 } else { 0 }, wake_now: rng.chance(1, 2) }
    }
}

#[derive(Clone, Debug, Default)]
pub struct PipeStats {
    pub calls: u64,
    pub chunks: u64,
    pub pendings: u64,
    pub interrupts: u64,
    pub eofs: u64,
    pub bytes: u64,
    pub max_request: usize,
}

pub struct SimReader<'a> {
    pub data: &'a [u8],
    pub pos: usize,
    sched: &'a Schedule,
    si: usize,
    pend_left: u32,
    tail_pended: bool,
    pub stats: PipeStats,
    pub log: Fnv,
    /// what the end of the byte string looks like: None = clean EOF (Ok(0)); Some(kind) = that I/O error
    pub end_error: Option<io::ErrorKind>,
    /// positions (absolute) at which a delivery boundary fell
    pub boundaries: Vec<usize>,
    pub pending_at: Vec<usize>,
}

enum Act {
    Deliver(usize),
    Pending,
    Interrupted,
}

impl<'a> SimReader<'a> {
    pub fn new(data: &'a [u8], sched: &'a Schedule) -> Self {
        SimReader {
            data,
            pos: 0,
            sched,
            si: 0,
            pend_left: 0,
            tail_pended: false,
            stats: PipeStats::default(),
            log: Fnv::new(),
            end_error: None,
            boundaries: Vec::new(),
            pending_at: Vec::new(),
        }
    }
    pub fn consumed(&self) -> usize {
        self.pos
    }

    fn decide(&mut self, is_async: bool, want: usize) -> Act {
        self.stats.calls += 1;
        self.stats.max_request = self.stats.max_request.max(want);
        loop {
            if self.pend_left > 0 {
                self.pend_left -= 1;
                return Act::Pending;
            }
            let remaining = self.data.len() - self.pos;
            match self.sched.steps.get(self.si).copied() {
                None => {
                    if is_async && self.sched.tail_pending > 0 && !self.tail_pended {
                        self.tail_pended = true;
                        self.pend_left = self.sched.tail_pending - 1;
                        return Act::Pending;
                    }
                    self.tail_pended = false;
                    let n = if self.sched.tail_chunk == 0 { remaining } else { self.sched.tail_chunk as usize };
                    return Act::Deliver(n.max(1));
                }
                Some(Step::Chunk(n)) => {
                    self.si += 1;
                    return Act::Deliver((n as usize).max(1));
                }
                Some(Step::Pending(k)) => {
                    self.si += 1;
                    if is_async && k > 0 {
                        self.pend_left = k - 1;
                        return Act::Pending;
                    }
                }
                Some(Step::Interrupted) => {
                    self.si += 1;
                    if !is_async {
                        return Act::Interrupted;
                    }
                }
            }
        }
    }

    fn deliver(&mut self, buf: &mut [u8], n: usize) -> io::Result<usize> {
        let remaining = self.data.len() - self.pos;
        if buf.is_empty() {
            return Ok(0);
        }
        if remaining == 0 {
            self.stats.eofs += 1;
            self.log.u8(0xE0);
            return match self.end_error {
                None => Ok(0),
                Some(k) => Err(io::Error::new(k, "simulated transport error")),
            };
        }
        let n = n.min(remaining).min(buf.len());
        buf[..n].copy_from_slice(&self.data[self.pos..self.pos + n]);
        self.pos += n;
        self.stats.chunks += 1;
        self.stats.bytes += n as u64;
        self.boundaries.push(self.pos);
        self.log.u8(0xC0);
        self.log.u64(n as u64);
        Ok(n)
    }
}

impl<'a> io::Read for SimReader<'a> {
    fn read(&mut self, buf: &mut [u8]) -> io::Result<usize> {
        match self.decide(false, buf.len()) {
            Act::Deliver(n) => self.deliver(buf, n),
            Act::Interrupted => {
                self.stats.interrupts += 1;
                self.log.u8(0x1E);
                Err(io::Error::new(io::ErrorKind::Interrupted, "simulated EINTR"))
            }
            Act::Pending => unreachable!(),
        }
    }
}

impl<'a> tokio::io::AsyncRead for SimReader<'a> {
    fn poll_read(self: Pin<&mut Self>, cx: &mut Context<'_>, buf: &mut tokio::io::ReadBuf<'_>) -> Poll<io::Result<()>> {
        let me = self.get_mut();
        match me.decide(true, buf.remaining()) {
            Act::Deliver(n) => {
                let dst = buf.initialize_unfilled();
                match me.deliver(dst, n) {
                    Ok(k) => {
                        buf.advance(k);
                        Poll::Ready(Ok(()))
                    }
                    Err(e) => Poll::Ready(Err(e)),
                }
            }
            Act::Pending => {
                me.stats.pendings += 1;
                me.pending_at.push(me.pos);
                me.log.u8(0xBE);
                if me.sched.wake_now {
                    cx.waker().wake_by_ref();
                }
                Poll::Pending
            }
            Act::Interrupted => unreachable!(),
        }
    }
}

impl<'a> futures_io::AsyncRead for SimReader<'a> {
    fn poll_read(self: Pin<&mut Self>, cx: &mut Context<'_>, buf: &mut [u8]) -> Poll<io::Result<usize>> {
        let me = self.get_mut();
        match me.decide(true, buf.len()) {
            Act::Deliver(n) => Poll::Ready(me.deliver(buf, n)),
            Act::Pending => {
                me.stats.pendings += 1;
                me.pending_at.push(me.pos);
                me.log.u8(0xBE);
                if me.sched.wake_now {
                    cx.waker().wake_by_ref();
                }
                Poll::Pending
            }
            Act::Interrupted => unreachable!(),
        }
    }
}

// ---------------------------------------------------------------------------------------------

pub struct SimWriter<'a> {
    pub data: Vec<u8>,
    sched: &'a Schedule,
    si: usize,
    pend_left: u32,
    tail_pended: bool,
    pub stats: PipeStats,
    pub log: Fnv,
    pub flushes: u64,
}

impl<'a> SimWriter<'a> {
    pub fn new(sched: &'a Schedule) -> Self {
        SimWriter { data: Vec::new(), sched, si: 0, pend_left: 0, tail_pended: false, stats: PipeStats::default(), log: Fnv::new(), flushes: 0 }
    }
    fn decide(&mut self, is_async: bool, want: usize) -> Act {
        self.stats.calls += 1;
        self.stats.max_request = self.stats.max_request.max(want);
        loop {
            if self.pend_left > 0 {
                self.pend_left -= 1;
                return Act::Pending;
            }
            match self.sched.steps.get(self.si).copied() {
                None => {
                    if is_async && self.sched.tail_pending > 0 && !self.tail_pended {
                        self.tail_pended = true;
                        self.pend_left = self.sched.tail_pending - 1;
                        return Act::Pending;
                    }
                    self.tail_pended = false;
                    let n = if self.sched.tail_chunk == 0 { want } else { self.sched.tail_chunk as usize };
                    return Act::Deliver(n.max(1));
                }
                Some(Step::Chunk(n)) => {
                    self.si += 1;
                    return Act::Deliver((n as usize).max(1));
                }
                Some(Step::Pending(k)) => {
                    self.si += 1;
                    if is_async && k > 0 {
                        self.pend_left = k - 1;
                        return Act::Pending;
                    }
                }
                Some(Step::Interrupted) => {
                    self.si += 1;
                    if !is_async {
                        return Act::Interrupted;
                    }
                }
            }
        }
    }
    fn accept(&mut self, buf: &[u8], n: usize) -> usize {
        let n = n.min(buf.len());
        self.data.extend_from_slice(&buf[..n]);
        self.stats.chunks += 1;
        self.stats.bytes += n as u64;
        self.log.u8(0xC1);
        self.log.u64(n as u64);
        n
    }
    fn pend(&mut self, cx: &mut Context<'_>) {
        self.stats.pendings += 1;
        self.log.u8(0xBF);
        if self.sched.wake_now {
            cx.waker().wake_by_ref();
        }
    }
}

impl<'a> io::Write for SimWriter<'a> {
    fn write(&mut self, buf: &[u8]) -> io::Result<usize> {
        if buf.is_empty() {
            return Ok(0);
        }
        match self.decide(false, buf.len()) {
            Act::Deliver(n) => Ok(self.accept(buf, n)),
            Act::Interrupted => {
                self.stats.interrupts += 1;
                self.log.u8(0x1F);
                Err(io::Error::new(io::ErrorKind::Interrupted, "simulated EINTR"))
            }
            Act::Pending => unreachable!(),
        }
    }
    fn flush(&mut self) -> io::Result<()> {
        self.flushes += 1;
        Ok(())
    }
}

impl<'a> tokio::io::AsyncWrite for SimWriter<'a> {
    fn poll_write(self: Pin<&mut Self>, cx: &mut Context<'_>, buf: &[u8]) -> Poll<io::Result<usize>> {
        let me = self.get_mut();
        if buf.is_empty() {
            return Poll::Ready(Ok(0));
        }
        match me.decide(true, buf.len()) {
            Act::Deliver(n) => Poll::Ready(Ok(me.accept(buf, n))),
            Act::Pending => {
                me.pend(cx);
                Poll::Pending
            }
            Act::Interrupted => unreachable!(),
        }
    }
    fn poll_flush(self: Pin<&mut Self>, _cx: &mut Context<'_>) -> Poll<io::Result<()>> {
        self.get_mut().flushes += 1;
        Poll::Ready(Ok(()))
    }
    fn poll_shutdown(self: Pin<&mut Self>, _cx: &mut Context<'_>) -> Poll<io::Result<()>> {
        Poll::Ready(Ok(()))
    }
}

impl<'a> futures_io::AsyncWrite for SimWriter<'a> {
    fn poll_write(self: Pin<&mut Self>, cx: &mut Context<'_>, buf: &[u8]) -> Poll<io::Result<usize>> {
        let me = self.get_mut();
        if buf.is_empty() {
            return Poll::Ready(Ok(0));
        }
        match me.decide(true, buf.len()) {
            Act::Deliver(n) => Poll::Ready(Ok(me.accept(buf, n))),
            Act::Pending => {
                me.pend(cx);
                Poll::Pending
            }
            Act::Interrupted => unreachable!(),
        }
    }
    fn poll_flush(self: Pin<&mut Self>, _cx: &mut Context<'_>) -> Poll<io::Result<()>> {
        self.get_mut().flushes += 1;
        Poll::Ready(Ok(()))
    }
    fn poll_close(self: Pin<&mut Self>, _cx: &mut Context<'_>) -> Poll<io::Result<()>> {
        Poll::Ready(Ok(()))
    }
}

// ---------------------------------------------------------------------------------------------
// Executor: single task, hand-written waker, tick budget (bounded liveness).

use std::future::Future;
use std::sync::atomic::{AtomicU64, Ordering};
use std::sync::Arc;
use std::task::Wake;

struct CountWaker(AtomicU64);
impl Wake for CountWaker {
    fn wake(self: Arc<Self>) {
        self.0.fetch_add(1, Ordering::Relaxed);
    }
    fn wake_by_ref(self: &Arc<Self>) {
        self.0.fetch_add(1, Ordering::Relaxed);
    }
}

#[derive(Debug)]
pub struct BudgetExceeded {
    pub polls: u64,
}

/// Poll `f` to completion. Every Pending costs one tick; the executor itself wakes the task on
/// its next tick when the pipe did not (both disciplines are legal for a transport).
pub fn block_on<F: Future>(f: F, budget: u64) -> Result<(F::Output, u64), BudgetExceeded> {
    let w = Arc::new(CountWaker(AtomicU64::new(0)));
    let waker = std::task::Waker::from(w.clone());
    let mut cx = Context::from_waker(&waker);
    let mut f = std::pin::pin!(f);
    let mut polls = 0u64;
    loop {
        polls += 1;
        match f.as_mut().poll(&mut cx) {
            Poll::Ready(v) => return Ok((v, polls)),
            Poll::Pending => {
                if polls > budget {
                    return Err(BudgetExceeded { polls });
                }
            }
        }
    }
}
