//! Counting global allocator: observes live bytes, peak and the largest single request per run,
//! and refuses single requests above a hard ceiling (returns null -> the std aborts the process,
//! which the supervisor attributes to the current run). No randomness, no clock.

use std::alloc::{GlobalAlloc, Layout, System};
use std::sync::atomic::{AtomicBool, AtomicUsize, Ordering::Relaxed};

pub struct Counting;

static LIVE: AtomicUsize = AtomicUsize::new(0);
static PEAK: AtomicUsize = AtomicUsize::new(0);
static LARGEST: AtomicUsize = AtomicUsize::new(0);
static ARMED: AtomicBool = AtomicBool::new(false);
/// hard ceiling for one request while armed (bytes); above it the allocation is refused
static CEILING: AtomicUsize = AtomicUsize::new(usize::MAX);
static REFUSED: AtomicUsize = AtomicUsize::new(0);
/// file descriptor to which a refusal is reported with a raw write(2) before returning null
static REPORT_FD: AtomicUsize = AtomicUsize::new(usize::MAX);

fn note(size: usize) {
    let live = LIVE.fetch_add(size, Relaxed) + size;
    if ARMED.load(Relaxed) {
        PEAK.fetch_max(live, Relaxed);
        LARGEST.fetch_max(size, Relaxed);
    }
}

fn report_refusal(size: usize) {
    REFUSED.store(size, Relaxed);
    let fd = REPORT_FD.load(Relaxed);
    if fd != usize::MAX {
        // "ALLOC <decimal>\n" without allocating
        let mut buf = [0u8; 40];
        let pre = b"ALLOC ";
        buf[..6].copy_from_slice(pre);
        let mut digits = [0u8; 24];
        let mut n = size;
        let mut k = 0;
        loop {
            digits[k] = b'0' + (n % 10) as u8;
            n /= 10;
            k += 1;
            if n == 0 {
                break;
            }
        }
        let mut p = 6;
        while k > 0 {
            k -= 1;
            buf[p] = digits[k];
            p += 1;
        }
        buf[p] = b'\n';
        p += 1;
        unsafe {
            libc::write(fd as i32, buf.as_ptr() as *const libc::c_void, p);
        }
    }
}

unsafe impl GlobalAlloc for Counting {
    unsafe fn alloc(&self, l: Layout) -> *mut u8 {
        if ARMED.load(Relaxed) && l.size() > CEILING.load(Relaxed) {
            report_refusal(l.size());
            return std::ptr::null_mut();
        }
        let p = System.alloc(l);
        if !p.is_null() {
            note(l.size());
        } else {
            report_refusal(l.size());
        }
        p
    }
    unsafe fn alloc_zeroed(&self, l: Layout) -> *mut u8 {
        if ARMED.load(Relaxed) && l.size() > CEILING.load(Relaxed) {
            report_refusal(l.size());
            return std::ptr::null_mut();
        }
        let p = System.alloc_zeroed(l);
        if !p.is_null() {
            note(l.size());
        } else {
            report_refusal(l.size());
        }
        p
    }
    unsafe fn dealloc(&self, p: *mut u8, l: Layout) {
        LIVE.fetch_sub(l.size(), Relaxed);
        System.dealloc(p, l)
    }
    unsafe fn realloc(&self, p: *mut u8, l: Layout, new_size: usize) -> *mut u8 {
        if ARMED.load(Relaxed) && new_size > CEILING.load(Relaxed) {
            report_refusal(new_size);
            return std::ptr::null_mut();
        }
        let q = System.realloc(p, l, new_size);
        if !q.is_null() {
            LIVE.fetch_sub(l.size(), Relaxed);
            note(new_size);
        } else {
            report_refusal(new_size);
        }
        q
    }
}

pub struct MemReport {
    pub peak_above_base: usize,
    pub largest: usize,
}

/// start observing one run
pub fn arm(ceiling: usize) -> usize {
    let base = LIVE.load(Relaxed);
    PEAK.store(base, Relaxed);
    LARGEST.store(0, Relaxed);
    CEILING.store(ceiling, Relaxed);
    ARMED.store(true, Relaxed);
    base
}

pub fn disarm(base: usize) -> MemReport {
    ARMED.store(false, Relaxed);
    MemReport { peak_above_base: PEAK.load(Relaxed).saturating_sub(base), largest: LARGEST.load(Relaxed) }
}

pub fn set_report_fd(fd: i32) {
    REPORT_FD.store(fd as usize, Relaxed);
}
