//! Independent parser for the wowm language (written from wowm_language/src/spec/lang-spec.md and
//! the pest grammar's token classes), used by the model peer. Nothing here comes from the
//! generator's Rust code.

use std::collections::BTreeMap;
use std::path::Path;

#[derive(Clone, Debug, PartialEq)]
pub enum Tok {
    Word(String), // identifiers and numbers (incl. 0x.., floats, self.size)
    Str(String),
    Sym(&'static str),
}

pub fn lex(src: &str) -> Result<Vec<Tok>, String> {
    let b = src.as_bytes();
    let mut i = 0;
    let mut out = Vec::new();
    while i < b.len() {
        let c = b[i];
        if c.is_ascii_whitespace() {
            i += 1;
            continue;
        }
        if c == b'/' && i + 1 < b.len() && b[i + 1] == b'*' {
            let mut j = i + 2;
            while j + 1 < b.len() && !(b[j] == b'*' && b[j + 1] == b'/') {
                j += 1;
            }
            i = j + 2;
            continue;
        }
        if c == b'/' && i + 2 < b.len() && b[i + 1] == b'/' && b[i + 2] == b'/' {
            while i < b.len() && b[i] != b'\n' {
                i += 1;
            }
            continue;
        }
        if c == b'"' {
            let mut j = i + 1;
            while j < b.len() && b[j] != b'"' {
                j += 1;
            }
            out.push(Tok::Str(src[i + 1..j].to_string()));
            i = j + 1;
            continue;
        }
        if c.is_ascii_alphanumeric() || c == b'_' {
            let mut j = i;
            while j < b.len() && (b[j].is_ascii_alphanumeric() || b[j] == b'_' || b[j] == b'.') {
                j += 1;
            }
            out.push(Tok::Word(src[i..j].to_string()));
            i = j;
            continue;
        }
        let two = if i + 1 < b.len() { &src[i..i + 2] } else { "" };
        let sym: &'static str = match two {
            "==" => "==",
            "!=" => "!=",
            "||" => "||",
            _ => match c {
                b'{' => "{",
                b'}' => "}",
                b'(' => "(",
                b')' => ")",
                b'[' => "[",
                b']' => "]",
                b';' => ";",
                b':' => ":",
                b'=' => "=",
                b',' => ",",
                b'|' => "|",
                b'&' => "&",
                b'-' => "-",
                b'#' => "#",
                _ => return Err(format!("unexpected char {:?} at {}", c as char, i)),
            },
        };
        i += sym.len();
        out.push(Tok::Sym(sym));
    }
    Ok(out)
}

pub type Tags = Vec<(String, String)>;

#[derive(Clone, Debug)]
pub struct Definer {
    pub name: String,
    pub is_flag: bool,
    pub base: String,
    pub members: Vec<(String, String)>, // name, raw value text
    pub member_is_str: Vec<bool>,
    pub tags: Tags,
    pub file: String,
}

#[derive(Clone, Debug, PartialEq)]
pub enum ArrLen {
    Fixed(u64),
    Var(String),
    Endless,
}

#[derive(Clone, Debug)]
pub enum TypeRef {
    Named(String),
    Array(String, ArrLen),
}

#[derive(Clone, Debug)]
pub struct Field {
    pub ty: TypeRef,
    pub upcast: Option<String>,
    pub name: String,
    pub constant: Option<String>,
    pub tags: Tags,
}

#[derive(Clone, Debug)]
pub struct Cond {
    pub var: String,
    pub op: &'static str, // "==", "&", "!="
    pub val: String,
}

#[derive(Clone, Debug)]
pub struct IfStmt {
    pub conds: Vec<Cond>,
    pub members: Vec<Member>,
    pub else_ifs: Vec<(Vec<Cond>, Vec<Member>)>,
    pub else_members: Vec<Member>,
}

#[derive(Clone, Debug)]
pub enum Member {
    Field(Field),
    If(IfStmt),
    Optional(String, Vec<Member>),
    Unimplemented,
}

#[derive(Clone, Debug, PartialEq, Eq, Copy)]
pub enum Kind {
    Struct,
    CLogin,
    SLogin,
    Msg,
    SMsg,
    CMsg,
}

#[derive(Clone, Debug)]
pub struct Container {
    pub name: String,
    pub kind: Kind,
    pub opcode: Option<u64>,
    pub members: Vec<Member>,
    pub tags: Tags,
    pub file: String,
}

#[derive(Clone, Debug)]
pub struct TestCase {
    pub name: String,
    pub bytes: Vec<u8>,
    pub tags: Tags,
    pub file: String,
}

#[derive(Default, Debug)]
pub struct Corpus {
    pub definers: Vec<Definer>,
    pub containers: Vec<Container>,
    pub tests: Vec<TestCase>,
    pub files: usize,
}

struct P {
    t: Vec<Tok>,
    i: usize,
    file: String,
}

pub fn parse_int(s: &str) -> Option<u64> {
    if let Some(h) = s.strip_prefix("0x").or_else(|| s.strip_prefix("0X")) {
        u64::from_str_radix(h, 16).ok()
    } else if let Some(h) = s.strip_prefix("0b") {
        u64::from_str_radix(h, 2).ok()
    } else {
        s.parse::<u64>().ok()
    }
}

/// value of an enumerator given as quoted string: bytes reversed into the integer, `\0` = zero byte
pub fn string_value(s: &str) -> u64 {
    let mut bytes = Vec::new();
    let b = s.as_bytes();
    let mut i = 0;
    while i < b.len() {
        if b[i] == b'\\' && i + 1 < b.len() && b[i + 1] == b'0' {
            bytes.push(0u8);
            i += 2;
        } else {
            bytes.push(b[i]);
            i += 1;
        }
    }
    let mut v: u64 = 0;
    for x in bytes {
        v = (v << 8) | x as u64;
    }
    v
}

impl P {
    fn peek(&self) -> Option<&Tok> {
        self.t.get(self.i)
    }
    fn next(&mut self) -> Result<Tok, String> {
        let t = self.t.get(self.i).cloned().ok_or_else(|| format!("{}: unexpected EOF", self.file))?;
        self.i += 1;
        Ok(t)
    }
    fn is_sym(&self, s: &str) -> bool {
        matches!(self.peek(), Some(Tok::Sym(x)) if *x == s)
    }
    fn is_word(&self, s: &str) -> bool {
        matches!(self.peek(), Some(Tok::Word(x)) if x == s)
    }
    fn eat_sym(&mut self, s: &str) -> bool {
        if self.is_sym(s) {
            self.i += 1;
            true
        } else {
            false
        }
    }
    fn expect_sym(&mut self, s: &str) -> Result<(), String> {
        if self.eat_sym(s) {
            Ok(())
        } else {
            Err(format!("{}: expected '{}' at token {} got {:?}", self.file, s, self.i, self.peek()))
        }
    }
    fn word(&mut self) -> Result<String, String> {
        match self.next()? {
            Tok::Word(w) => Ok(w),
            t => Err(format!("{}: expected word at token {} got {:?}", self.file, self.i, t)),
        }
    }
    /// value: number / identifier / "string" / -number ; returns (text, was_string)
    fn value(&mut self) -> Result<(String, bool), String> {
        match self.next()? {
            Tok::Word(w) => Ok((w, false)),
            Tok::Str(s) => Ok((s, true)),
            Tok::Sym("-") => {
                let w = self.word()?;
                Ok((format!("-{}", w), false))
            }
            t => Err(format!("{}: expected value got {:?}", self.file, t)),
        }
    }
    fn tags_block(&mut self) -> Result<Tags, String> {
        // "{" (ident "=" "str" ";")+ "}"
        let mut tags = Vec::new();
        self.expect_sym("{")?;
        while !self.is_sym("}") {
            let k = self.word()?;
            self.expect_sym("=")?;
            let v = match self.next()? {
                Tok::Str(s) => s,
                t => return Err(format!("{}: tag value must be a string, got {:?}", self.file, t)),
            };
            self.eat_sym(";");
            tags.push((k, v));
        }
        self.expect_sym("}")?;
        Ok(tags)
    }
    fn looks_like_tags(&self) -> bool {
        // "{" word "=" str
        self.is_sym("{")
            && matches!(self.t.get(self.i + 1), Some(Tok::Word(_)))
            && matches!(self.t.get(self.i + 2), Some(Tok::Sym("=")))
            && matches!(self.t.get(self.i + 3), Some(Tok::Str(_)))
    }
    fn definer(&mut self, is_flag: bool) -> Result<Definer, String> {
        let name = self.word()?;
        self.expect_sym(":")?;
        let base = self.word()?;
        self.expect_sym("{")?;
        let mut members = Vec::new();
        let mut member_is_str = Vec::new();
        while !self.is_sym("}") {
            let n = self.word()?;
            self.expect_sym("=")?;
            let (v, s) = self.value()?;
            if self.is_sym("{") {
                let _ = self.tags_block()?;
            } else {
                self.expect_sym(";")?;
            }
            members.push((n, v));
            member_is_str.push(s);
        }
        self.expect_sym("}")?;
        let mut tags = Vec::new();
        while self.looks_like_tags() {
            tags.extend(self.tags_block()?);
        }
        Ok(Definer { name, is_flag, base, members, member_is_str, tags, file: self.file.clone() })
    }
    fn conds(&mut self) -> Result<Vec<Cond>, String> {
        self.expect_sym("(")?;
        let mut v = Vec::new();
        loop {
            let var = self.word()?;
            let op = match self.next()? {
                Tok::Sym("==") => "==",
                Tok::Sym("&") => "&",
                Tok::Sym("!=") => "!=",
                t => return Err(format!("{}: bad if operator {:?}", self.file, t)),
            };
            let (val, _) = self.value()?;
            v.push(Cond { var, op, val });
            if !self.eat_sym("||") {
                break;
            }
        }
        self.expect_sym(")")?;
        Ok(v)
    }
    fn members(&mut self) -> Result<Vec<Member>, String> {
        // until "}"
        let mut out = Vec::new();
        while !self.is_sym("}") {
            out.push(self.member()?);
        }
        Ok(out)
    }
    fn member(&mut self) -> Result<Member, String> {
        if self.is_word("if") {
            self.i += 1;
            let conds = self.conds()?;
            self.expect_sym("{")?;
            let members = self.members()?;
            self.expect_sym("}")?;
            let mut else_ifs = Vec::new();
            let mut else_members = Vec::new();
            while self.is_word("else") {
                self.i += 1;
                if self.is_word("if") {
                    self.i += 1;
                    let c = self.conds()?;
                    self.expect_sym("{")?;
                    let m = self.members()?;
                    self.expect_sym("}")?;
                    else_ifs.push((c, m));
                } else {
                    self.expect_sym("{")?;
                    else_members = self.members()?;
                    self.expect_sym("}")?;
                    break;
                }
            }
            return Ok(Member::If(IfStmt { conds, members, else_ifs, else_members }));
        }
        if self.is_word("optional") {
            self.i += 1;
            let name = self.word()?;
            self.expect_sym("{")?;
            let m = self.members()?;
            self.expect_sym("}")?;
            if self.looks_like_tags() {
                let _ = self.tags_block()?;
            }
            return Ok(Member::Optional(name, m));
        }
        if self.is_word("unimplemented") {
            self.i += 1;
            return Ok(Member::Unimplemented);
        }
        // [ "(" basic ")" ] type [ "[" len "]" ] name [ "=" value ] ( ";" | tags )
        let mut upcast = None;
        if self.eat_sym("(") {
            upcast = Some(self.word()?);
            self.expect_sym(")")?;
        }
        let tyname = self.word()?;
        let ty = if self.eat_sym("[") {
            let len = if self.eat_sym("-") {
                ArrLen::Endless
            } else {
                let w = self.word()?;
                match parse_int(&w) {
                    Some(n) => ArrLen::Fixed(n),
                    None => ArrLen::Var(w),
                }
            };
            self.expect_sym("]")?;
            TypeRef::Array(tyname, len)
        } else {
            TypeRef::Named(tyname)
        };
        let name = self.word()?;
        let mut constant = None;
        if self.eat_sym("=") {
            constant = Some(self.value()?.0);
        }
        let mut tags = Vec::new();
        if self.is_sym("{") {
            tags = self.tags_block()?;
        } else {
            self.expect_sym(";")?;
        }
        Ok(Member::Field(Field { ty, upcast, name, constant, tags }))
    }
    fn container(&mut self, kind: Kind) -> Result<Container, String> {
        let name = self.word()?;
        let mut opcode = None;
        if self.eat_sym("=") {
            let (v, _) = self.value()?;
            opcode = Some(parse_int(&v).ok_or_else(|| format!("{}: bad opcode {}", self.file, v))?);
        }
        self.expect_sym("{")?;
        let members = self.members()?;
        self.expect_sym("}")?;
        let mut tags = Vec::new();
        while self.looks_like_tags() {
            tags.extend(self.tags_block()?);
        }
        Ok(Container { name, kind, opcode, members, tags, file: self.file.clone() })
    }
    fn skip_balanced(&mut self, open: &'static str, close: &'static str) -> Result<(), String> {
        self.expect_sym(open)?;
        let mut depth = 1;
        while depth > 0 {
            match self.next()? {
                Tok::Sym(s) if s == open => depth += 1,
                Tok::Sym(s) if s == close => depth -= 1,
                _ => {}
            }
        }
        Ok(())
    }
    fn test(&mut self) -> Result<TestCase, String> {
        let name = self.word()?;
        self.skip_balanced("{", "}")?;
        self.expect_sym("[")?;
        let mut bytes = Vec::new();
        while !self.is_sym("]") {
            let (v, is_str) = self.value()?;
            if is_str {
                return Err(format!("{}: string in test bytes", self.file));
            }
            let n = parse_int(&v).ok_or_else(|| format!("{}: bad byte {}", self.file, v))?;
            bytes.push(n as u8);
            self.eat_sym(",");
        }
        self.expect_sym("]")?;
        let mut tags = Vec::new();
        while self.looks_like_tags() {
            tags.extend(self.tags_block()?);
        }
        Ok(TestCase { name, bytes, tags, file: self.file.clone() })
    }
}

pub fn parse_file(src: &str, file: &str, corpus: &mut Corpus) -> Result<(), String> {
    let mut p = P { t: lex(src).map_err(|e| format!("{}: {}", file, e))?, i: 0, file: file.to_string() };
    let mut tag_all: Tags = Vec::new();
    while p.eat_sym("#") {
        let cmd = p.word()?;
        let k = p.word()?;
        let v = match p.next()? {
            Tok::Str(s) => s,
            t => return Err(format!("{}: bad command value {:?}", file, t)),
        };
        p.expect_sym(";")?;
        if cmd == "tag_all" {
            tag_all.push((k, v));
        }
    }
    let apply = |tags: &mut Tags| {
        for (k, v) in &tag_all {
            if let Some(e) = tags.iter_mut().find(|(kk, _)| kk == k) {
                e.1 = format!("{} {}", e.1, v);
            } else {
                tags.push((k.clone(), v.clone()));
            }
        }
    };
    while p.peek().is_some() {
        let w = p.word()?;
        match w.as_str() {
            "enum" | "flag" => {
                let mut d = p.definer(w == "flag")?;
                apply(&mut d.tags);
                corpus.definers.push(d);
            }
            "struct" | "clogin" | "slogin" | "msg" | "smsg" | "cmsg" => {
                let kind = match w.as_str() {
                    "struct" => Kind::Struct,
                    "clogin" => Kind::CLogin,
                    "slogin" => Kind::SLogin,
                    "msg" => Kind::Msg,
                    "smsg" => Kind::SMsg,
                    _ => Kind::CMsg,
                };
                let mut c = p.container(kind)?;
                apply(&mut c.tags);
                corpus.containers.push(c);
            }
            "test" => {
                let mut t = p.test()?;
                apply(&mut t.tags);
                corpus.tests.push(t);
            }
            _ => return Err(format!("{}: unexpected statement keyword {}", file, w)),
        }
    }
    Ok(())
}

fn walk(dir: &Path, out: &mut Vec<std::path::PathBuf>) {
    if let Ok(rd) = std::fs::read_dir(dir) {
        for e in rd.flatten() {
            let p = e.path();
            if p.is_dir() {
                walk(&p, out);
            } else if p.extension().map(|x| x == "wowm").unwrap_or(false) {
                out.push(p);
            }
        }
    }
}

pub fn load_corpus(root: &Path) -> Result<Corpus, String> {
    let mut files = Vec::new();
    walk(root, &mut files);
    files.sort(); // never depend on directory enumeration order
    let mut c = Corpus::default();
    for f in &files {
        let src = std::fs::read_to_string(f).map_err(|e| format!("{}: {}", f.display(), e))?;
        parse_file(&src, &f.display().to_string(), &mut c)?;
    }
    c.files = files.len();
    Ok(c)
}

pub fn tag<'a>(tags: &'a Tags, k: &str) -> Option<&'a str> {
    // multiple occurrences of versions-like tags are joined by the caller
    tags.iter().find(|(kk, _)| kk == k).map(|(_, v)| v.as_str())
}

pub fn tag_all_values(tags: &Tags, k: &str) -> String {
    tags.iter().filter(|(kk, _)| kk == k).map(|(_, v)| v.as_str()).collect::<Vec<_>>().join(" ")
}

pub type Index = BTreeMap<String, Vec<usize>>;
