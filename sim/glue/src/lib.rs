//! Everything that instantiates the libraries' generic entry points lives in this crate so that
//! editing the checks does not recompile ~10,000 monomorphisations.
pub mod alloc;
pub mod login;
pub mod model;
pub mod pipe;
pub mod rng;
pub mod umask;
pub mod umglue;
pub mod world;
pub mod wowm;
