//! Self-contained PRNG (xoshiro256**) + splitmix64 seeding. No OS entropy, no clock.

#[derive(Clone, Debug)]
pub struct Rng {
    s: [u64; 4],
}

pub fn splitmix64(x: &mut u64) -> u64 {
    *x = x.wrapping_add(0x9E3779B97F4A7C15);
    let mut z = *x;
    z = (z ^ (z >> 30)).wrapping_mul(0xBF58476D1CE4E5B9);
    z = (z ^ (z >> 27)).wrapping_mul(0x94D049BB133111EB);
    z ^ (z >> 31)
}

pub fn fnv1a(bytes: &[u8]) -> u64 {
    let mut h: u64 = 0xcbf29ce484222325;
    for b in bytes {
        h ^= *b as u64;
        h = h.wrapping_mul(0x100000001b3);
    }
    h
}

/// Incremental FNV-1a hasher used for event logs.
#[derive(Clone, Copy, Debug)]
pub struct Fnv(pub u64);
impl Default for Fnv {
    fn default() -> Self {
        Fnv(0xcbf29ce484222325)
    }
}
impl Fnv {
    pub fn new() -> Self {
        Self::default()
    }
    pub fn u8(&mut self, b: u8) {
        self.0 ^= b as u64;
        self.0 = self.0.wrapping_mul(0x100000001b3);
    }
    pub fn bytes(&mut self, bs: &[u8]) {
        for b in bs {
            self.u8(*b);
        }
    }
    pub fn u64(&mut self, v: u64) {
        self.bytes(&v.to_le_bytes());
    }
    pub fn str(&mut self, s: &str) {
        self.bytes(s.as_bytes());
        self.u8(0xff);
    }
}

/// seed of run `i` of property `prop` under master seed `seed`
pub fn run_seed(seed: u64, prop: &str, i: u64) -> u64 {
    let mut x = seed ^ fnv1a(prop.as_bytes()) ^ i.wrapping_mul(0xD1B54A32D192ED03);
    splitmix64(&mut x)
}

impl Rng {
    pub fn new(seed: u64) -> Self {
        let mut x = seed;
        let s = [
            splitmix64(&mut x),
            splitmix64(&mut x),
            splitmix64(&mut x),
            splitmix64(&mut x),
        ];
        Rng { s }
    }
    /// independent sub-stream (so that shrinking one dimension does not perturb the others)
    pub fn fork(&self, label: &str) -> Rng {
        let mut x = self.s[0] ^ self.s[2].rotate_left(17) ^ fnv1a(label.as_bytes());
        Rng::new(splitmix64(&mut x))
    }
    pub fn next_u64(&mut self) -> u64 {
        let result = self.s[1].wrapping_mul(5).rotate_left(7).wrapping_mul(9);
        let t = self.s[1] << 17;
        self.s[2] ^= self.s[0];
        self.s[3] ^= self.s[1];
        self.s[1] ^= self.s[2];
        self.s[0] ^= self.s[3];
        self.s[2] ^= t;
        self.s[3] = self.s[3].rotate_left(45);
        result
    }
    pub fn next_u32(&mut self) -> u32 {
        (self.next_u64() >> 32) as u32
    }
    /// uniform in 0..n (n > 0)
    pub fn below(&mut self, n: u64) -> u64 {
        if n <= 1 {
            return 0;
        }
        // multiply-shift; bias negligible for our n
        ((self.next_u64() as u128 * n as u128) >> 64) as u64
    }
    pub fn range(&mut self, lo: u64, hi_incl: u64) -> u64 {
        lo + self.below(hi_incl - lo + 1)
    }
    pub fn chance(&mut self, num: u64, den: u64) -> bool {
        self.below(den) < num
    }
    pub fn pick<'a, T>(&mut self, xs: &'a [T]) -> &'a T {
        &xs[self.below(xs.len() as u64) as usize]
    }
    pub fn fill(&mut self, buf: &mut [u8]) {
        for c in buf.chunks_mut(8) {
            let v = self.next_u64().to_le_bytes();
            c.copy_from_slice(&v[..c.len()]);
        }
    }
    pub fn shuffle<T>(&mut self, xs: &mut [T]) {
        for i in (1..xs.len()).rev() {
            let j = self.below(i as u64 + 1) as usize;
            xs.swap(i, j);
        }
    }
}
