//! Model peer: an independent executable reading of the wowm definitions. Produces canonical
//! frames for a chosen message together with a field map. Written from the language documents
//! (lang-spec.md, tags.md, versioning-with-tags.md, compression.md, types/*.md).

use crate::rng::Rng;
use crate::wowm::*;
use std::collections::BTreeMap;
use std::io::Write;

#[derive(Clone, Copy, Debug, PartialEq, Eq, PartialOrd, Ord, Hash)]
pub enum Exp {
    Vanilla,
    Tbc,
    Wrath,
}
impl Exp {
    pub const ALL: [Exp; 3] = [Exp::Vanilla, Exp::Tbc, Exp::Wrath];
    pub fn name(self) -> &'static str {
        match self {
            Exp::Vanilla => "vanilla",
            Exp::Tbc => "tbc",
            Exp::Wrath => "wrath",
        }
    }
    pub fn from_name(s: &str) -> Option<Exp> {
        Exp::ALL.into_iter().find(|e| e.name() == s)
    }
    fn version(self) -> [u32; 4] {
        match self {
            Exp::Vanilla => [1, 12, u32::MAX, u32::MAX], // target 1.12 (minor)
            Exp::Tbc => [2, 4, 3, 8606],
            Exp::Wrath => [3, 3, 5, 12340],
        }
    }
}

#[derive(Clone, Copy, Debug, PartialEq, Eq, PartialOrd, Ord, Hash)]
pub enum Target {
    World(Exp),
    Login(u8), // protocol version 2,3,5,6,7,8 ; 0 = "all"
}

impl Target {
    pub fn name(self) -> String {
        match self {
            Target::World(e) => e.name().to_string(),
            Target::Login(0) => "login_all".to_string(),
            Target::Login(n) => format!("login_{}", n),
        }
    }
}

/// does a `versions` entry (prefix rule) cover the target
fn world_entry_covers(entry: &str, target: Exp) -> bool {
    if entry == "*" {
        return true;
    }
    let t = target.version();
    let parts: Vec<&str> = entry.split('.').collect();
    if parts.len() > 4 {
        return false;
    }
    for (i, p) in parts.iter().enumerate() {
        let Ok(n) = p.parse::<u32>() else { return false };
        if t[i] == u32::MAX {
            // target is less specific than the entry (e.g. entry 1.12.1 vs target 1.12): not covered
            return false;
        }
        if n != t[i] {
            return false;
        }
    }
    true
}

pub fn covers(tags: &Tags, target: Target) -> bool {
    match target {
        Target::World(e) => {
            let v = format!("{} {}", tag_all_values(tags, "versions"), tag_all_values(tags, "paste_versions"));
            v.split_whitespace().any(|x| world_entry_covers(x, e))
        }
        Target::Login(n) => {
            let v = tag_all_values(tags, "login_versions");
            if n == 0 {
                v.split_whitespace().any(|x| x == "*")
            } else {
                v.split_whitespace().any(|x| x == "*" || x.parse::<u8>().ok() == Some(n))
            }
        }
    }
}

fn is_test(tags: &Tags) -> bool {
    tag(tags, "test") == Some("true")
}

#[derive(Clone, Copy, Debug, PartialEq, Eq)]
pub enum Dir {
    Client, // sent by the client (CMSG / clogin)
    Server,
}
impl Dir {
    pub fn name(self) -> &'static str {
        match self {
            Dir::Client => "client",
            Dir::Server => "server",
        }
    }
}

#[derive(Clone, Debug, serde::Serialize, serde::Deserialize, PartialEq)]
pub enum FKind {
    Int,
    Float,
    Bool,
    Enum { definer: String, declared: Vec<u64>, upcast: bool },
    Flag { definer: String, all_bits: u64 },
    Count { of: String },
    StrLen,
    SelfSize,
    Const,
    CString,
    Str,
    Guid,
    PackedGuid,
    DateTime,
    CompressedSize,
    Builtin(String),
    MaskBlocks, // update mask block count
}

#[derive(Clone, Debug, serde::Serialize, serde::Deserialize)]
pub struct FieldInfo {
    pub off: usize,
    pub len: usize,
    pub kind: FKind,
    pub path: String,
}

#[derive(Clone, Debug)]
pub struct Frame {
    pub name: String,
    pub opcode: u32,
    /// logical (uncompressed) body; for login messages includes the opcode byte
    pub plain: Vec<u8>,
    /// offset in `plain` where a compressed region starts (runs to the end); the u32 before it is its decompressed size
    pub comp_start: Option<usize>,
    pub fields: Vec<FieldInfo>,
    /// the message has a size that does not depend on values
    pub shape: String,
}

pub fn zlib(data: &[u8]) -> Vec<u8> {
    let mut e = flate2::write::ZlibEncoder::new(Vec::new(), flate2::Compression::default());
    e.write_all(data).unwrap();
    e.finish().unwrap()
}

impl Frame {
    /// wire body (without world header)
    pub fn wire_body(&self) -> Vec<u8> {
        body_to_wire(&self.plain, self.comp_start)
    }
}

pub fn body_to_wire(plain: &[u8], comp_start: Option<usize>) -> Vec<u8> {
    match comp_start {
        None => plain.to_vec(),
        Some(cs) => {
            let mut v = plain[..cs].to_vec();
            v.extend_from_slice(&zlib(&plain[cs..]));
            v
        }
    }
}

#[derive(Clone, Debug)]
pub struct Knobs {
    pub max_arr: u64,
    pub max_str: u64,
    /// 0 = never; n = one in n top-level arrays gets exactly 255 or 256 elements (the limits of a u8 count), where the count field allows it
    pub big_array_one_in: u64,
    pub size_budget: usize,
    /// force every endless u8 array / last string to this many bytes (length sweep)
    pub endless_len: Option<usize>,
    pub allow_nan: bool,
    pub take_optional: Option<bool>,
    /// percentage of flag values that avoid the bits selecting else-if chains / nested conditionals
    /// (shapes whose size the library is known to compute wrongly, see known_findings.json); keeps that
    /// known defect from ending most sessions early
    pub avoid_cond_flag_branches: u64,
}
impl Default for Knobs {
    fn default() -> Self {
        Knobs { max_arr: 3, max_str: 12, big_array_one_in: 0, size_budget: 2000, endless_len: None, allow_nan: false, take_optional: None, avoid_cond_flag_branches: 0 }
    }
}

pub struct Model<'c> {
    pub target: Target,
    pub definers: BTreeMap<String, &'c Definer>,
    pub containers: BTreeMap<String, &'c Container>,
    pub messages: Vec<&'c Container>,
    pub update_fields: Vec<crate::umask::UField>,
}

fn int_width(ty: &str) -> Option<(usize, bool, bool)> {
    // (bytes, big endian, signed)
    Some(match ty {
        "u8" | "Level" => (1, false, false),
        "i8" => (1, false, true),
        "u16" | "Level16" | "Spell16" => (2, false, false),
        "i16" => (2, false, true),
        "u32" | "Gold" | "Seconds" | "Milliseconds" | "Spell" | "Item" | "Level32" => (4, false, false),
        "i32" => (4, false, true),
        "u64" => (8, false, false),
        "i64" => (8, false, true),
        "u48" => (6, false, false),
        "u16_be" => (2, true, false),
        "u32_be" | "IpAddress" => (4, true, false),
        "u64_be" => (8, true, false),
        "i32_be" => (4, true, true),
        _ => return None,
    })
}

fn put_int(out: &mut Vec<u8>, v: u64, w: usize, be: bool) {
    let le = v.to_le_bytes();
    if be {
        for i in (0..w).rev() {
            out.push(le[i]);
        }
    } else {
        out.extend_from_slice(&le[..w]);
    }
}

pub fn definer_value(d: &Definer, idx: usize) -> u64 {
    let (_, raw) = &d.members[idx];
    if d.member_is_str[idx] {
        return string_value(raw);
    }
    if let Some(neg) = raw.strip_prefix('-') {
        let n: i64 = neg.parse().unwrap_or(0);
        let w = int_width(&d.base).map(|x| x.0).unwrap_or(4);
        let v = (-(n as i128)) as u64;
        if w >= 8 {
            v
        } else {
            v & ((1u64 << (w * 8)) - 1)
        }
    } else {
        parse_int(raw).unwrap_or(0)
    }
}

pub fn definer_lookup(d: &Definer, name: &str) -> Option<u64> {
    d.members.iter().position(|(n, _)| n == name).map(|i| definer_value(d, i))
}

/// conditions mentioning variable `var` anywhere in the member tree
fn collect_cond_values(ms: &[Member], var: &str, out: &mut Vec<String>) {
    for m in ms {
        match m {
            Member::If(i) => {
                for c in i.conds.iter().chain(i.else_ifs.iter().flat_map(|(c, _)| c.iter())) {
                    if c.var == var {
                        out.push(c.val.clone());
                    }
                }
                collect_cond_values(&i.members, var, out);
                for (_, m) in &i.else_ifs {
                    collect_cond_values(m, var, out);
                }
                collect_cond_values(&i.else_members, var, out);
            }
            Member::Optional(_, ms) => collect_cond_values(ms, var, out),
            _ => {}
        }
    }
}

/// enumerators of `var` that select an else-if chain or a branch with a nested conditional
fn collect_defect_cond_values(ms: &[Member], var: &str, out: &mut Vec<String>) {
    for m in ms {
        match m {
            Member::If(i) => {
                let nested = i.members.iter().any(|m| matches!(m, Member::If(_)));
                if (!i.else_ifs.is_empty() || nested) && i.conds.first().map(|c| c.op == "&" && c.var == var).unwrap_or(false) {
                    for c in i.conds.iter().chain(i.else_ifs.iter().flat_map(|(c, _)| c.iter())) {
                        out.push(c.val.clone());
                    }
                }
                collect_defect_cond_values(&i.members, var, out);
                for (_, m) in &i.else_ifs {
                    collect_defect_cond_values(m, var, out);
                }
                collect_defect_cond_values(&i.else_members, var, out);
            }
            Member::Optional(_, ms) => collect_defect_cond_values(ms, var, out),
            _ => {}
        }
    }
}

fn collect_count_fields(ms: &[Member], out: &mut Vec<String>) {
    for m in ms {
        match m {
            Member::Field(f) => {
                if let TypeRef::Array(_, ArrLen::Var(v)) = &f.ty {
                    out.push(v.clone());
                }
            }
            Member::If(i) => {
                collect_count_fields(&i.members, out);
                for (_, m) in &i.else_ifs {
                    collect_count_fields(m, out);
                }
                collect_count_fields(&i.else_members, out);
            }
            Member::Optional(_, ms) => collect_count_fields(ms, out),
            _ => {}
        }
    }
}

fn has_unimplemented(ms: &[Member]) -> bool {
    ms.iter().any(|m| match m {
        Member::Unimplemented => true,
        Member::If(i) => {
            has_unimplemented(&i.members)
                || i.else_ifs.iter().any(|(_, m)| has_unimplemented(m))
                || has_unimplemented(&i.else_members)
        }
        Member::Optional(_, ms) => has_unimplemented(ms),
        _ => false,
    })
}

pub struct Enc<'a, 'c> {
    m: &'a Model<'c>,
    rng: &'a mut Rng,
    k: &'a Knobs,
    pub out: Vec<u8>,
    pub fields: Vec<FieldInfo>,
    path: Vec<String>,
    comp_start: Option<usize>,
    self_size: Option<(usize, usize, bool)>,
    shape: Vec<String>,
    depth: usize,
}

type Scope = BTreeMap<String, u64>;

impl<'c> Model<'c> {
    pub fn new(corpus: &'c Corpus, target: Target) -> Result<Model<'c>, String> {
        let mut definers = BTreeMap::new();
        for d in &corpus.definers {
            if !is_test(&d.tags) && covers(&d.tags, target) {
                if definers.insert(d.name.clone(), d).is_some() {
                    return Err(format!("two definers named {} cover {:?}", d.name, target));
                }
            }
        }
        let mut containers = BTreeMap::new();
        let mut messages = Vec::new();
        for c in &corpus.containers {
            if is_test(&c.tags) || !covers(&c.tags, target) {
                continue;
            }
            let world = matches!(target, Target::World(_));
            let is_login_kind = matches!(c.kind, Kind::CLogin | Kind::SLogin);
            if c.kind != Kind::Struct && (world == is_login_kind) {
                continue;
            }
            if containers.insert(c.name.clone(), c).is_some() {
                return Err(format!("two containers named {} cover {:?}", c.name, target));
            }
            if c.kind != Kind::Struct {
                messages.push(c);
            }
        }
        let update_fields = match target {
            Target::World(e) => crate::umask::load_fields(e).unwrap_or_default(),
            _ => Vec::new(),
        };
        Ok(Model { target, definers, containers, messages, update_fields })
    }

    pub fn message(&self, name: &str) -> Option<&'c Container> {
        self.messages.iter().copied().find(|c| c.name == name)
    }

    pub fn messages_dir(&self, dir: Dir) -> Vec<&'c Container> {
        self.messages
            .iter()
            .copied()
            .filter(|c| match (c.kind, dir) {
                (Kind::Msg, _) => true,
                (Kind::CMsg | Kind::CLogin, Dir::Client) => true,
                (Kind::SMsg | Kind::SLogin, Dir::Server) => true,
                _ => false,
            })
            .collect()
    }

    /// encode one message; Err = construct the model does not implement (reported as unmodelled)
    pub fn encode(&self, c: &Container, rng: &mut Rng, k: &Knobs) -> Result<Frame, String> {
        if has_unimplemented(&c.members) {
            return Err("unimplemented member".into());
        }
        let mut e = Enc {
            m: self,
            rng,
            k,
            out: Vec::new(),
            fields: Vec::new(),
            path: Vec::new(),
            comp_start: None,
            self_size: None,
            shape: Vec::new(),
            depth: 0,
        };
        let login = matches!(self.target, Target::Login(_));
        if login {
            e.out.push(c.opcode.unwrap_or(0) as u8);
        }
        if tag(&c.tags, "compressed") == Some("true") {
            // u32 decompressed size of the whole remaining body, then its zlib stream
            let off = e.out.len();
            e.out.extend_from_slice(&[0; 4]);
            e.fields.push(FieldInfo { off, len: 4, kind: FKind::CompressedSize, path: "decompressed_size".into() });
            e.comp_start = Some(e.out.len());
        }
        e.container(c)?;
        if let Some(cs) = e.comp_start {
            let n = (e.out.len() - cs) as u32;
            e.out[cs - 4..cs].copy_from_slice(&n.to_le_bytes());
        }
        Ok(Frame {
            name: c.name.clone(),
            opcode: c.opcode.unwrap_or(0) as u32,
            plain: e.out,
            comp_start: e.comp_start,
            fields: e.fields,
            shape: e.shape.join(","),
        })
    }
}

impl<'a, 'c> Enc<'a, 'c> {
    fn p(&self, name: &str) -> String {
        if self.path.is_empty() {
            name.to_string()
        } else {
            format!("{}.{}", self.path.join("."), name)
        }
    }
    fn rec(&mut self, off: usize, kind: FKind, name: &str) {
        let len = self.out.len() - off;
        let path = self.p(name);
        self.fields.push(FieldInfo { off, len, kind, path });
    }
    fn over_budget(&self) -> bool {
        self.out.len() > self.k.size_budget
    }

    fn rand_int(&mut self, w: usize) -> u64 {
        let max = if w >= 8 { u64::MAX } else { (1u64 << (w * 8)) - 1 };
        match self.rng.below(8) {
            0 => 0,
            1 => 1,
            2 => max,
            3 => max >> 1,
            4 => (max >> 1) + 1,
            5 => self.rng.below(256) & max,
            _ => self.rng.next_u64() & max,
        }
    }

    fn rand_f32(&mut self) -> u32 {
        loop {
            let v = match self.rng.below(6) {
                0 => 0u32,
                1 => (1.0f32).to_bits(),
                2 => (-8949.95f32).to_bits(),
                3 => (self.rng.below(100000) as f32 / 8.0).to_bits(),
                _ => self.rng.next_u32(),
            };
            if self.k.allow_nan || !f32::from_bits(v).is_nan() {
                return v;
            }
        }
    }

    fn rand_string(&mut self, max: u64) -> Vec<u8> {
        let n = match self.rng.below(48) {
            0..=7 => 0,
            8..=15 => 1,
            // the longest string the readers accept
            16 if max >= 12 && !self.over_budget() => 255,
            _ => self.rng.below(max + 1),
        };
        // n is a length in BYTES (the readers' limit is in bytes): multi-byte characters are only used where they fit
        let mut v: Vec<u8> = Vec::new();
        while (v.len() as u64) < n {
            let room = n - v.len() as u64;
            match self.rng.below(12) {
                0 if room >= 2 => v.extend_from_slice("é".as_bytes()),
                1 if room >= 3 => v.extend_from_slice("日".as_bytes()),
                _ => v.push(b' ' + self.rng.below(95) as u8),
            }
        }
        v
    }

    fn container(&mut self, c: &Container) -> Result<(), String> {
        self.depth += 1;
        if self.depth > 12 {
            return Err("nesting too deep".into());
        }
        let mut counts = Vec::new();
        collect_count_fields(&c.members, &mut counts);
        let mut scope = Scope::new();
        let saved = self.self_size.take();
        self.members(c, &c.members, &mut scope, &counts)?;
        if let Some((off, w, be)) = self.self_size {
            // self.size = number of bytes that follow the field inside this container
            let v = (self.out.len() - off - w) as u64;
            let mut tmp = Vec::new();
            put_int(&mut tmp, v, w, be);
            self.out[off..off + w].copy_from_slice(&tmp);
        }
        self.self_size = saved;
        self.depth -= 1;
        Ok(())
    }

    fn eval(&mut self, c: &Container, conds: &[Cond], scope: &Scope) -> Result<bool, String> {
        for cd in conds {
            let v = *scope.get(&cd.var).ok_or_else(|| format!("if on unknown variable {}", cd.var))?;
            let ty = self.field_definer(c, &cd.var)?;
            let ev = definer_lookup(ty, &cd.val).ok_or_else(|| format!("unknown enumerator {} in {}", cd.val, ty.name))?;
            let hit = match cd.op {
                "==" => v == ev,
                "!=" => v != ev,
                "&" => (v & ev) != 0,
                _ => false,
            };
            if hit {
                return Ok(true);
            }
        }
        Ok(false)
    }

    fn find_field<'x>(ms: &'x [Member], name: &str) -> Option<&'x Field> {
        for m in ms {
            match m {
                Member::Field(f) if f.name == name => return Some(f),
                Member::If(i) => {
                    if let Some(f) = Self::find_field(&i.members, name) {
                        return Some(f);
                    }
                    for (_, m) in &i.else_ifs {
                        if let Some(f) = Self::find_field(m, name) {
                            return Some(f);
                        }
                    }
                    if let Some(f) = Self::find_field(&i.else_members, name) {
                        return Some(f);
                    }
                }
                Member::Optional(_, ms) => {
                    if let Some(f) = Self::find_field(ms, name) {
                        return Some(f);
                    }
                }
                _ => {}
            }
        }
        None
    }

    fn field_definer(&self, c: &Container, var: &str) -> Result<&'c Definer, String> {
        let f = Self::find_field(&c.members, var).ok_or_else(|| format!("no field {}", var))?;
        match &f.ty {
            TypeRef::Named(n) => self.m.definers.get(n).copied().ok_or_else(|| format!("{} is not a definer", n)),
            _ => Err("if on array".into()),
        }
    }

    fn members(&mut self, c: &Container, ms: &[Member], scope: &mut Scope, counts: &[String]) -> Result<(), String> {
        for m in ms {
            match m {
                Member::Field(f) => self.field(c, f, scope, counts)?,
                Member::If(i) => {
                    if self.eval(c, &i.conds, scope)? {
                        self.shape.push(format!("{}:if", i.conds[0].var));
                        self.members(c, &i.members, scope, counts)?;
                    } else {
                        let mut done = false;
                        for (n, (cd, mm)) in i.else_ifs.iter().enumerate() {
                            if self.eval(c, cd, scope)? {
                                self.shape.push(format!("{}:elif{}", i.conds[0].var, n));
                                self.members(c, mm, scope, counts)?;
                                done = true;
                                break;
                            }
                        }
                        if !done {
                            self.shape.push(format!("{}:else", i.conds[0].var));
                            self.members(c, &i.else_members, scope, counts)?;
                        }
                    }
                }
                Member::Optional(name, mm) => {
                    let take = self.k.take_optional.unwrap_or_else(|| self.rng.chance(1, 2));
                    if take {
                        self.shape.push(format!("{}:some", name));
                        self.members(c, mm, scope, counts)?;
                    } else {
                        self.shape.push(format!("{}:none", name));
                    }
                }
                Member::Unimplemented => return Err("unimplemented".into()),
            }
        }
        Ok(())
    }

    fn choose_len(&mut self, hard_max: u64) -> u64 {
        let max = self.k.max_arr.min(hard_max);
        if self.k.big_array_one_in > 0 && self.depth <= 1 && !self.over_budget() && hard_max >= 255 && self.rng.chance(1, self.k.big_array_one_in) {
            return if hard_max >= 256 && self.rng.chance(1, 2) { 256 } else { 255 };
        }
        if self.over_budget() || self.depth > 3 {
            return self.rng.below(2).min(hard_max);
        }
        match self.rng.below(10) {
            0 => 0,
            1 => 1,
            2 => max,
            3 => (max * 4).min(hard_max).min(40),
            _ => self.rng.below(max + 1),
        }
    }

    fn field(&mut self, c: &Container, f: &Field, scope: &mut Scope, counts: &[String]) -> Result<(), String> {
        let off = self.out.len();
        match &f.ty {
            TypeRef::Named(tn) => {
                // constants and self.size
                if let Some(cv) = &f.constant {
                    if cv == "self.size" {
                        let (w, be, _) = int_width(tn).ok_or("self.size on non-int")?;
                        self.self_size = Some((off, w, be));
                        put_int(&mut self.out, 0, w, be);
                        self.rec(off, FKind::SelfSize, &f.name);
                        return Ok(());
                    }
                    if let Some((w, be, _)) = int_width(tn) {
                        let v = if let Some(neg) = cv.strip_prefix('-') {
                            (-(neg.parse::<i64>().map_err(|_| "bad const")?)) as u64
                        } else {
                            // a quoted constant on an integer field ("\0WoW") is the big-endian number of its bytes
                            match parse_int(cv) {
                                Some(v) => v,
                                None if !cv.is_empty() && cv.len() <= 16 && !cv.chars().any(|c| c.is_whitespace()) => crate::wowm::string_value(cv),
                                None => return Err(format!("bad constant {}", cv)),
                            }
                        };
                        put_int(&mut self.out, v, w, be);
                        self.rec(off, FKind::Const, &f.name);
                        scope.insert(f.name.clone(), v);
                        return Ok(());
                    }
                    if let Some(d) = self.m.definers.get(tn).copied() {
                        let v = definer_lookup(d, cv).or_else(|| parse_int(cv)).ok_or("bad definer constant")?;
                        let (w, be, _) = int_width(f.upcast.as_deref().unwrap_or(&d.base)).ok_or("bad definer base")?;
                        put_int(&mut self.out, v, w, be);
                        self.rec(off, FKind::Const, &f.name);
                        scope.insert(f.name.clone(), v);
                        return Ok(());
                    }
                    if tn == "f32" {
                        let v: f32 = cv.parse().map_err(|_| "bad f32 const")?;
                        self.out.extend_from_slice(&v.to_le_bytes());
                        self.rec(off, FKind::Const, &f.name);
                        return Ok(());
                    }
                    return Err(format!("constant of type {}", tn));
                }
                if counts.contains(&f.name) {
                    let (w, be, _) = int_width(tn).ok_or("count of non-int type")?;
                    let hard = if w >= 4 { u32::MAX as u64 } else { (1u64 << (w * 8)) - 1 };
                    let n = self.choose_len(hard);
                    put_int(&mut self.out, n, w, be);
                    self.rec(off, FKind::Count { of: f.name.clone() }, &f.name);
                    scope.insert(f.name.clone(), n);
                    return Ok(());
                }
                self.value(c, tn, f, scope)?;
            }
            TypeRef::Array(inner, len) => {
                let compressed = tag(&f.tags, "compressed") == Some("true");
                if compressed {
                    let o = self.out.len();
                    self.out.extend_from_slice(&[0; 4]);
                    self.rec(o, FKind::CompressedSize, &format!("{}.decompressed_size", f.name));
                    if self.comp_start.is_some() {
                        return Err("nested compression".into());
                    }
                    self.comp_start = Some(self.out.len());
                }
                let n = match len {
                    ArrLen::Fixed(n) => *n,
                    ArrLen::Var(v) => *scope.get(v).ok_or_else(|| format!("array length {} unknown", v))?,
                    ArrLen::Endless => {
                        if let (Some(l), true) = (self.k.endless_len, int_width(inner).map(|x| x.0) == Some(1)) {
                            l as u64
                        } else {
                            self.choose_len(u32::MAX as u64)
                        }
                    }
                };
                if inner == "u8" {
                    // bulk bytes
                    let start = self.out.len();
                    self.out.resize(start + n as usize, 0);
                    let (a, b) = self.out.split_at_mut(start);
                    let _ = a;
                    self.rng.fill(b);
                    self.rec(off, FKind::Builtin(format!("u8[{}]", n)), &f.name);
                } else {
                    for i in 0..n {
                        self.path.push(format!("{}[{}]", f.name, i));
                        let ff = Field { ty: TypeRef::Named(inner.clone()), upcast: None, name: "_".into(), constant: None, tags: vec![] };
                        let mut sc = Scope::new();
                        let r = self.value(c, inner, &ff, &mut sc);
                        self.path.pop();
                        r?;
                    }
                }
            }
        }
        Ok(())
    }

    fn value(&mut self, c: &Container, tn: &str, f: &Field, scope: &mut Scope) -> Result<(), String> {
        let off = self.out.len();
        let name = f.name.clone();
        if let Some((w, be, _)) = int_width(tn) {
            let mut v = self.rand_int(w);
            if tn == "Level16" || tn == "Level32" {
                // the library keeps levels in a u8; larger values are not valid traffic (C01-type observation)
                v &= 0xFF;
            }
            put_int(&mut self.out, v, w, be);
            self.rec(off, FKind::Int, &name);
            scope.insert(name, v);
            return Ok(());
        }
        match tn {
            "Bool" | "Bool16" | "Bool32" | "Bool64" => {
                let w = match tn {
                    "Bool" => 1,
                    "Bool16" => 2,
                    "Bool32" => 4,
                    _ => 8,
                };
                let v = self.rng.below(2);
                put_int(&mut self.out, v, w, false);
                self.rec(off, FKind::Bool, &name);
            }
            "f32" | "Population" => {
                let v = self.rand_f32();
                self.out.extend_from_slice(&v.to_le_bytes());
                self.rec(off, FKind::Float, &name);
            }
            "f32_be" => {
                let v = self.rand_f32();
                self.out.extend_from_slice(&v.to_be_bytes());
                self.rec(off, FKind::Float, &name);
            }
            "Guid" => {
                let v = self.rand_int(8);
                put_int(&mut self.out, v, 8, false);
                self.rec(off, FKind::Guid, &name);
            }
            "PackedGuid" => {
                let v = match self.rng.below(6) {
                    0 => 0,
                    1 => self.rng.below(256),
                    2 => self.rng.next_u64(),
                    3 => self.rng.next_u64() & 0x00FF_00FF_FF00_00FF,
                    _ => {
                        // every pattern of zero / non-zero bytes (e.g. a zero byte in the middle and a non-zero top byte)
                        let keep = self.rng.below(256);
                        let mut v = self.rng.next_u64() | 0x0101_0101_0101_0101;
                        for b in 0..8 {
                            if keep & (1 << b) == 0 {
                                v &= !(0xFFu64 << (8 * b));
                            }
                        }
                        v
                    }
                };
                self.packed_guid(v);
                self.rec(off, FKind::PackedGuid, &name);
            }
            "NamedGuid" => {
                let v = if self.rng.chance(1, 3) { 0 } else { self.rng.next_u64() | 1 };
                put_int(&mut self.out, v, 8, false);
                if v != 0 {
                    let s = self.rand_string(self.k.max_str);
                    self.out.extend_from_slice(&s);
                    self.out.push(0);
                }
                self.rec(off, FKind::Builtin("NamedGuid".into()), &name);
            }
            "CString" => {
                let max = tag(&f.tags, "maximum_length").and_then(|x| x.parse::<u64>().ok()).unwrap_or(self.k.max_str);
                let s = self.rand_string(max.min(self.k.max_str.max(1)));
                self.out.extend_from_slice(&s);
                self.out.push(0);
                self.rec(off, FKind::CString, &name);
            }
            "SizedCString" => {
                let s = self.rand_string(self.k.max_str);
                put_int(&mut self.out, s.len() as u64 + 1, 4, false);
                self.rec(off, FKind::StrLen, &format!("{}.len", name));
                let o2 = self.out.len();
                self.out.extend_from_slice(&s);
                self.out.push(0);
                self.rec(o2, FKind::CString, &name);
            }
            "String" => {
                let s = self.rand_string(self.k.max_str.min(255));
                put_int(&mut self.out, s.len() as u64, 1, false);
                self.rec(off, FKind::StrLen, &format!("{}.len", name));
                let o2 = self.out.len();
                self.out.extend_from_slice(&s);
                self.rec(o2, FKind::Str, &name);
            }
            "DateTime" => {
                let v = self.rand_datetime();
                put_int(&mut self.out, v as u64, 4, false);
                self.rec(off, FKind::DateTime, &name);
            }
            "VariableItemRandomProperty" => {
                let v = if self.rng.chance(1, 2) { 0 } else { self.rng.next_u32() | 1 };
                put_int(&mut self.out, v as u64, 4, false);
                if v != 0 {
                    let v2 = self.rng.next_u32();
                    put_int(&mut self.out, v2 as u64, 4, false);
                }
                self.rec(off, FKind::Builtin(tn.into()), &name);
            }
            "AuraMask" => {
                match self.m.target {
                    Target::World(Exp::Vanilla) => {
                        let pat = self.rand_pattern(32);
                        put_int(&mut self.out, pat, 4, false);
                        for i in 0..32 {
                            if pat & (1 << i) != 0 {
                                let v = self.rng.next_u32() as u64 & 0xFFFF;
                                put_int(&mut self.out, v, 2, false);
                            }
                        }
                    }
                    _ => {
                        let pat = self.rand_pattern(64);
                        put_int(&mut self.out, pat, 8, false);
                        let aura = *self.m.containers.get("Aura").ok_or("no Aura struct")?;
                        for i in 0..64 {
                            if pat & (1u64 << i) != 0 {
                                self.path.push(format!("{}[{}]", name, i));
                                let r = self.container(aura);
                                self.path.pop();
                                r?;
                            }
                        }
                    }
                }
                self.rec(off, FKind::Builtin(tn.into()), &name);
            }
            "EnchantMask" => {
                let pat = self.rand_pattern(16);
                put_int(&mut self.out, pat, 2, false);
                for i in 0..16 {
                    if pat & (1 << i) != 0 {
                        let v = self.rng.next_u32() as u64 & 0xFFFF;
                        put_int(&mut self.out, v, 2, false);
                    }
                }
                self.rec(off, FKind::Builtin(tn.into()), &name);
            }
            "CacheMask" => {
                let pat = self.rand_pattern(32);
                put_int(&mut self.out, pat, 4, false);
                for i in 0..32 {
                    if pat & (1 << i) != 0 {
                        let v = self.rng.next_u32() as u64;
                        put_int(&mut self.out, v, 4, false);
                    }
                }
                self.rec(off, FKind::Builtin(tn.into()), &name);
            }
            "InspectTalentGearMask" => {
                let pat = self.rand_pattern(32);
                put_int(&mut self.out, pat, 4, false);
                let st = *self.m.containers.get("InspectTalentGear").ok_or("no InspectTalentGear struct")?;
                for i in 0..32 {
                    if pat & (1 << i) != 0 {
                        self.path.push(format!("{}[{}]", name, i));
                        let r = self.container(st);
                        self.path.pop();
                        r?;
                    }
                }
                self.rec(off, FKind::Builtin(tn.into()), &name);
            }
            "AchievementDoneArray" | "AchievementInProgressArray" => {
                let sname = if tn == "AchievementDoneArray" { "AchievementDone" } else { "AchievementInProgress" };
                let st = *self.m.containers.get(sname).ok_or("no achievement struct")?;
                let n = self.choose_len(u32::MAX as u64);
                for i in 0..n {
                    self.path.push(format!("{}[{}]", name, i));
                    let o = self.out.len();
                    let r = self.container(st);
                    self.path.pop();
                    r?;
                    // first member is the achievement id; it must not be the sentinel
                    if self.out.len() >= o + 4 && self.out[o..o + 4] == [0xFF; 4] {
                        self.out[o] = 0xFE;
                    }
                }
                self.out.extend_from_slice(&[0xFF; 4]);
                self.rec(off, FKind::Builtin(tn.into()), &name);
            }
            "MonsterMoveSplines" => {
                let n = self.choose_len(u32::MAX as u64);
                put_int(&mut self.out, n, 4, false);
                let o2 = self.out.len();
                self.rec(off, FKind::Count { of: name.clone() }, &format!("{}.count", name));
                let _ = o2;
                for i in 0..n {
                    if i == 0 {
                        for _ in 0..3 {
                            let v = self.rand_f32();
                            put_int(&mut self.out, v as u64, 4, false);
                        }
                    } else {
                        // packed: only values that survive unpack/pack: multiples of 4 quarter units
                        let x = (self.rng.below(0x200) * 4) & 0x7FF;
                        let y = (self.rng.below(0x200) * 4) & 0x7FF;
                        let z = (self.rng.below(0x100) * 4) & 0x3FF;
                        let p = x | (y << 11) | (z << 22);
                        put_int(&mut self.out, p, 4, false);
                    }
                }
                self.rec(o2, FKind::Builtin(tn.into()), &name);
            }
            "UpdateMask" => {
                self.update_mask(&name)?;
            }
            "AddonArray" => return Err("AddonArray (reader is a deliberate panic, F13)".into()),
            _ => {
                if let Some(d) = self.m.definers.get(tn).copied() {
                    let (w, be, _) = int_width(f.upcast.as_deref().unwrap_or(&d.base)).ok_or_else(|| format!("definer base {}", d.base))?;
                    let v = if d.is_flag { self.rand_flag(c, d, &name) } else { self.rand_enum(c, d, &name) };
                    put_int(&mut self.out, v, w, be);
                    if d.is_flag {
                        let all = (0..d.members.len()).fold(0, |a, i| a | definer_value(d, i));
                        self.rec(off, FKind::Flag { definer: d.name.clone(), all_bits: all }, &name);
                    } else {
                        let declared = (0..d.members.len()).map(|i| definer_value(d, i)).collect();
                        self.rec(off, FKind::Enum { definer: d.name.clone(), declared, upcast: f.upcast.is_some() }, &name);
                    }
                    scope.insert(name, v);
                } else if let Some(st) = self.m.containers.get(tn).copied() {
                    if st.kind != Kind::Struct {
                        return Err(format!("{} used as a type is not a struct", tn));
                    }
                    self.path.push(name);
                    let r = self.container(st);
                    self.path.pop();
                    r?;
                } else {
                    return Err(format!("unknown type {}", tn));
                }
            }
        }
        Ok(())
    }

    fn rand_pattern(&mut self, bits: u32) -> u64 {
        let full = if bits == 64 { u64::MAX } else { (1u64 << bits) - 1 };
        if self.over_budget() {
            return 0;
        }
        match self.rng.below(7) {
            0 => 0,
            1 => 1,
            2 => 1u64 << (bits - 1),
            6 => full,
            3 => self.rng.next_u64() & self.rng.next_u64() & self.rng.next_u64() & full,
            4 => self.rng.below(16),
            _ => 1u64 << self.rng.below(bits as u64),
        }
    }

    fn rand_enum(&mut self, c: &Container, d: &Definer, var: &str) -> u64 {
        let mut cv = Vec::new();
        collect_cond_values(&c.members, var, &mut cv);
        if !cv.is_empty() && self.rng.chance(2, 3) {
            let n = self.rng.pick(&cv).clone();
            if let Some(v) = definer_lookup(d, &n) {
                self.shape.push(format!("{}={}", var, n));
                return v;
            }
        }
        let i = self.rng.below(d.members.len() as u64) as usize;
        self.shape.push(format!("{}={}", var, d.members[i].0));
        definer_value(d, i)
    }

    fn rand_flag(&mut self, c: &Container, d: &Definer, var: &str) -> u64 {
        let mut cv = Vec::new();
        collect_cond_values(&c.members, var, &mut cv);
        let mut v = 0u64;
        match self.rng.below(8) {
            0 => {}
            1 => {
                for i in 0..d.members.len() {
                    v |= definer_value(d, i);
                }
            }
            2 | 3 if !cv.is_empty() => {
                // exactly one condition bit: reaches each branch alone
                let n = self.rng.pick(&cv).clone();
                v = definer_lookup(d, &n).unwrap_or(0);
            }
            _ => {
                let k = self.rng.below(4);
                for _ in 0..=k {
                    let i = self.rng.below(d.members.len() as u64) as usize;
                    v |= definer_value(d, i);
                }
                for n in &cv {
                    if self.rng.chance(1, 4) {
                        v |= definer_lookup(d, n).unwrap_or(0);
                    }
                }
            }
        }
        if self.k.avoid_cond_flag_branches > 0 && self.rng.below(100) < self.k.avoid_cond_flag_branches {
            let mut dv = Vec::new();
            collect_defect_cond_values(&c.members, var, &mut dv);
            for n in &dv {
                v &= !definer_lookup(d, n).unwrap_or(0);
            }
        }
        self.shape.push(format!("{}={:#x}", var, v));
        v
    }

    fn packed_guid(&mut self, v: u64) {
        let b = v.to_le_bytes();
        let mut mask = 0u8;
        for (i, x) in b.iter().enumerate() {
            if *x != 0 {
                mask |= 1 << i;
            }
        }
        self.out.push(mask);
        for x in b {
            if x != 0 {
                self.out.push(x);
            }
        }
    }

    pub fn rand_datetime(&mut self) -> u32 {
        let y = self.rng.below(64) as u32; // years after 2000
        let mo = self.rng.below(12) as u32;
        let year = 2000 + y;
        let leap = (year % 4 == 0 && year % 100 != 0) || year % 400 == 0;
        let dim = [31, if leap { 29 } else { 28 }, 31, 30, 31, 30, 31, 31, 30, 31, 30, 31][mo as usize];
        let d = self.rng.below(dim) as u32;
        let h = self.rng.below(24) as u32;
        let mi = self.rng.below(60) as u32;
        // weekday by Sakamoto's algorithm, 0 = Sunday
        let t = [0, 3, 2, 5, 0, 3, 5, 1, 4, 6, 2, 4];
        let mut yy = year;
        let m = mo + 1;
        if m < 3 {
            yy -= 1;
        }
        let wd = (yy + yy / 4 - yy / 100 + yy / 400 + t[(m - 1) as usize] + (d + 1)) % 7;
        (y << 24) | (mo << 20) | (d << 14) | (wd << 11) | (h << 6) | mi
    }

    fn update_mask(&mut self, name: &str) -> Result<(), String> {
        let off = self.out.len();
        let kinds: [(u32, &str); 7] =
            [(0x02, "Item"), (0x06, "Container"), (0x08, "Unit"), (0x18, "Player"), (0x20, "GameObject"), (0x40, "DynamicObject"), (0x80, "Corpse")];
        let (bits, kname) = *self.rng.pick(&kinds);
        let mut vals: BTreeMap<u16, u32> = BTreeMap::new();
        vals.insert(2, 0x01 | bits);
        // choose fields from the published table that belong to this kind (or Object)
        let cands: Vec<crate::umask::UField> = self
            .m
            .update_fields
            .iter()
            .filter(|u| u.kind == "Object" || u.kind == kname || (kname == "Container" && u.kind == "Item") || (kname == "Player" && u.kind == "Unit"))
            .cloned()
            .collect();
        let n = if self.over_budget() { 0 } else { self.rng.below(8) };
        for _ in 0..n {
            if cands.is_empty() {
                break;
            }
            let u = self.rng.pick(&cands).clone();
            let words = u.size.min(4).max(1);
            let w0 = self.rng.below((u.size - words + 1) as u64) as u16;
            for w in 0..words {
                let v = self.rng.next_u32();
                vals.insert(u.offset + w0 + w, v);
            }
        }
        vals.insert(2, 0x01 | bits);
        let hi = *vals.keys().max().unwrap();
        let blocks = (hi as usize + 1 + 31) / 32;
        self.out.push(blocks as u8);
        self.rec(off, FKind::MaskBlocks, &format!("{}.blocks", name));
        let o2 = self.out.len();
        let mut mask = vec![0u32; blocks];
        for k in vals.keys() {
            mask[*k as usize / 32] |= 1 << (*k % 32);
        }
        for m in &mask {
            self.out.extend_from_slice(&m.to_le_bytes());
        }
        for v in vals.values() {
            self.out.extend_from_slice(&v.to_le_bytes());
        }
        self.shape.push(format!("mask={}", kname));
        self.rec(o2, FKind::Builtin("UpdateMask".into()), name);
        Ok(())
    }
}

// ---------------------------------------------------------------------------------------------
// Headers (written from wowm_language/src/ir/implementing_world.md)

/// world header for a body of `body_len` bytes
pub fn world_header(exp: Exp, dir: Dir, opcode: u32, body_len: usize) -> Vec<u8> {
    let mut h = Vec::new();
    match dir {
        Dir::Client => {
            let size = body_len + 4;
            h.extend_from_slice(&(size as u16).to_be_bytes());
            h.extend_from_slice(&opcode.to_le_bytes());
        }
        Dir::Server => {
            let size = body_len + 2;
            if exp == Exp::Wrath && size > 0x7FFF {
                h.push(((size >> 16) as u8) | 0x80);
                h.push((size >> 8) as u8);
                h.push(size as u8);
            } else {
                h.extend_from_slice(&(size as u16).to_be_bytes());
            }
            h.extend_from_slice(&(opcode as u16).to_le_bytes());
        }
    }
    h
}

#[derive(Debug, Clone, PartialEq)]
pub struct Header {
    pub header_len: usize,
    pub size_field: usize, // value of the size field = bytes that follow the size field
    pub size_len: usize,
    pub opcode: u32,
}

/// independent header decoder; None if `b` is too short
pub fn parse_world_header(exp: Exp, dir: Dir, b: &[u8]) -> Option<Header> {
    match dir {
        Dir::Client => {
            if b.len() < 6 {
                return None;
            }
            Some(Header {
                header_len: 6,
                size_field: u16::from_be_bytes([b[0], b[1]]) as usize,
                size_len: 2,
                opcode: u32::from_le_bytes([b[2], b[3], b[4], b[5]]),
            })
        }
        Dir::Server => {
            if b.len() < 4 {
                return None;
            }
            if exp == Exp::Wrath && b[0] & 0x80 != 0 {
                if b.len() < 5 {
                    return None;
                }
                Some(Header {
                    header_len: 5,
                    size_field: (((b[0] & 0x7F) as usize) << 16) | ((b[1] as usize) << 8) | b[2] as usize,
                    size_len: 3,
                    opcode: u16::from_le_bytes([b[3], b[4]]) as u32,
                })
            } else {
                Some(Header {
                    header_len: 4,
                    size_field: u16::from_be_bytes([b[0], b[1]]) as usize,
                    size_len: 2,
                    opcode: u16::from_le_bytes([b[2], b[3]]) as u32,
                })
            }
        }
    }
}
