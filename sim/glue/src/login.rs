//! Adapter to the real login-message library: opcode-enum readers, typed expect helpers,
//! read_initial_message and the three writer flavours, for protocol versions 2,3,5,6,7,8,
//! driven over SimPipe. Login readers parse directly from the stream and exist as three
//! separately generated copies per message.

use crate::model::Dir;
use crate::pipe::{block_on, Schedule, SimReader, SimWriter};
use crate::world::{ErrSig, Flavour, WriteOut};
use std::error::Error;
use wow_login_messages::errors::ExpectedOpcodeError;

pub const VERSIONS: [u8; 6] = [2, 3, 5, 6, 7, 8];

pub struct LoginOut {
    /// Ok: (Debug rendering of the value, the value re-encoded with the blocking writer)
    pub result: Result<(String, Vec<u8>), ErrSig>,
    pub polls: u64,
    pub budget_exceeded: bool,
}

pub fn errsig_login(e: &ExpectedOpcodeError) -> ErrSig {
    match e {
        ExpectedOpcodeError::Opcode(o) => ErrSig { outer: "Opcode".into(), kind: "".into(), detail: format!("{}", o) },
        ExpectedOpcodeError::Io(io) => ErrSig { outer: "Io".into(), kind: format!("{:?}", io.kind()), detail: "".into() },
        ExpectedOpcodeError::Parse(p) => {
            let dbg = format!("{:?}", p);
            let kind = if let Some(i) = dbg.find(", kind: ") {
                let rest = &dbg[i + 8..];
                let end = rest.find(|c: char| !(c.is_alphanumeric() || c == '_')).unwrap_or(rest.len());
                rest[..end].to_string()
            } else {
                "?".into()
            };
            let mut detail = String::new();
            if let Some(src) = p.source() {
                if let Some(en) = src.downcast_ref::<wow_login_messages::errors::EnumError>() {
                    detail = format!("{}", en.value);
                } else if let Some(io) = src.downcast_ref::<std::io::Error>() {
                    detail = format!("{:?}", io.kind());
                }
            }
            ErrSig { outer: "Parse".into(), kind, detail }
        }
    }
}

macro_rules! run_async_l {
    ($fut:expr, $budget:expr, $polls:ident, $exceeded:ident, $errty:expr) => {
        match block_on($fut, $budget) {
            Ok((r, p)) => {
                $polls = p;
                r
            }
            Err(b) => {
                $polls = b.polls;
                $exceeded = true;
                Err($errty)
            }
        }
    };
}

fn budget_err() -> ExpectedOpcodeError {
    ExpectedOpcodeError::Opcode(0xFFFF_FFFF)
}

macro_rules! login_write_one {
    ($x:expr, $fl:expr, $w:expr, $budget:expr) => {{
        use wow_login_messages::Message;
        let mut polls = 0u64;
        let mut exceeded = false;
        let r: std::io::Result<()> = match $fl {
            Flavour::Sync => $x.write(&mut *$w),
            Flavour::Tokio => run_async_l!($x.tokio_write(&mut *$w), $budget, polls, exceeded, std::io::Error::new(std::io::ErrorKind::Other, "BUDGET")),
            Flavour::Astd => run_async_l!($x.astd_write(&mut *$w), $budget, polls, exceeded, std::io::Error::new(std::io::ErrorKind::Other, "BUDGET")),
        };
        WriteOut { result: r.map_err(|e| format!("{:?}", e.kind())), polls, budget_exceeded: exceeded }
    }};
}

macro_rules! login_expect_one {
    ($ty:path, client, $fl:expr, $rd:expr, $budget:expr, $fin:expr) => {{
        use wow_login_messages::helper as H;
        let mut polls = 0u64;
        let mut exceeded = false;
        let r: Result<$ty, ExpectedOpcodeError> = match $fl {
            Flavour::Sync => H::expect_client_message::<$ty, _>(&mut *$rd),
            Flavour::Tokio => run_async_l!(H::tokio_expect_client_message::<$ty, _>(&mut *$rd), $budget, polls, exceeded, budget_err()),
            Flavour::Astd => run_async_l!(H::astd_expect_client_message::<$ty, _>(&mut *$rd), $budget, polls, exceeded, budget_err()),
        };
        LoginOut { result: r.map($fin).map_err(|e| errsig_login(&e)), polls, budget_exceeded: exceeded }
    }};
    ($ty:path, server, $fl:expr, $rd:expr, $budget:expr, $fin:expr) => {{
        use wow_login_messages::helper as H;
        let mut polls = 0u64;
        let mut exceeded = false;
        let r: Result<$ty, ExpectedOpcodeError> = match $fl {
            Flavour::Sync => H::expect_server_message::<$ty, _>(&mut *$rd),
            Flavour::Tokio => run_async_l!(H::tokio_expect_server_message::<$ty, _>(&mut *$rd), $budget, polls, exceeded, budget_err()),
            Flavour::Astd => run_async_l!(H::astd_expect_server_message::<$ty, _>(&mut *$rd), $budget, polls, exceeded, budget_err()),
        };
        LoginOut { result: r.map($fin).map_err(|e| errsig_login(&e)), polls, budget_exceeded: exceeded }
    }};
}

include!(concat!(env!("OUT_DIR"), "/login_dispatch.rs"));

macro_rules! login_read_enum_one {
    ($v:ident, $t:ident, $fin:ident, $fl:expr, $rd:expr, $budget:expr) => {{
        use wow_login_messages::$v::opcodes::$t as T;
        let mut polls = 0u64;
        let mut exceeded = false;
        let r: Result<T, ExpectedOpcodeError> = match $fl {
            Flavour::Sync => T::read(&mut *$rd),
            Flavour::Tokio => run_async_l!(T::tokio_read(&mut *$rd), $budget, polls, exceeded, budget_err()),
            Flavour::Astd => run_async_l!(T::astd_read(&mut *$rd), $budget, polls, exceeded, budget_err()),
        };
        LoginOut { result: r.map($fin).map_err(|e| errsig_login(&e)), polls, budget_exceeded: exceeded }
    }};
}

/// read one message through the version's opcode enum
pub fn login_read_enum(version: u8, dir: Dir, fl: Flavour, rd: &mut SimReader<'_>, budget: u64) -> Option<LoginOut> {
    Some(match (version, dir) {
        (2, Dir::Client) => login_read_enum_one!(version_2, ClientOpcodeMessage, login_finish_version_2_client, fl, rd, budget),
        (2, Dir::Server) => login_read_enum_one!(version_2, ServerOpcodeMessage, login_finish_version_2_server, fl, rd, budget),
        (3, Dir::Client) => login_read_enum_one!(version_3, ClientOpcodeMessage, login_finish_version_3_client, fl, rd, budget),
        (3, Dir::Server) => login_read_enum_one!(version_3, ServerOpcodeMessage, login_finish_version_3_server, fl, rd, budget),
        (5, Dir::Client) => login_read_enum_one!(version_5, ClientOpcodeMessage, login_finish_version_5_client, fl, rd, budget),
        (5, Dir::Server) => login_read_enum_one!(version_5, ServerOpcodeMessage, login_finish_version_5_server, fl, rd, budget),
        (6, Dir::Client) => login_read_enum_one!(version_6, ClientOpcodeMessage, login_finish_version_6_client, fl, rd, budget),
        (6, Dir::Server) => login_read_enum_one!(version_6, ServerOpcodeMessage, login_finish_version_6_server, fl, rd, budget),
        (7, Dir::Client) => login_read_enum_one!(version_7, ClientOpcodeMessage, login_finish_version_7_client, fl, rd, budget),
        (7, Dir::Server) => login_read_enum_one!(version_7, ServerOpcodeMessage, login_finish_version_7_server, fl, rd, budget),
        (8, Dir::Client) => login_read_enum_one!(version_8, ClientOpcodeMessage, login_finish_version_8_client, fl, rd, budget),
        (8, Dir::Server) => login_read_enum_one!(version_8, ServerOpcodeMessage, login_finish_version_8_server, fl, rd, budget),
        _ => return None,
    })
}

/// typed expect helper for concrete message type `name`
pub fn login_read_expect(version: u8, dir: Dir, name: &str, fl: Flavour, rd: &mut SimReader<'_>, budget: u64) -> Option<LoginOut> {
    match (version, dir) {
        (2, Dir::Client) => login_expect_version_2_client(name, fl, rd, budget),
        (2, Dir::Server) => login_expect_version_2_server(name, fl, rd, budget),
        (3, Dir::Client) => login_expect_version_3_client(name, fl, rd, budget),
        (3, Dir::Server) => login_expect_version_3_server(name, fl, rd, budget),
        (5, Dir::Client) => login_expect_version_5_client(name, fl, rd, budget),
        (5, Dir::Server) => login_expect_version_5_server(name, fl, rd, budget),
        (6, Dir::Client) => login_expect_version_6_client(name, fl, rd, budget),
        (6, Dir::Server) => login_expect_version_6_server(name, fl, rd, budget),
        (7, Dir::Client) => login_expect_version_7_client(name, fl, rd, budget),
        (7, Dir::Server) => login_expect_version_7_server(name, fl, rd, budget),
        (8, Dir::Client) => login_expect_version_8_client(name, fl, rd, budget),
        (8, Dir::Server) => login_expect_version_8_server(name, fl, rd, budget),
        _ => None,
    }
}

pub fn protocol_version(version: u8) -> Option<wow_login_messages::all::ProtocolVersion> {
    use wow_login_messages::all::ProtocolVersion as P;
    Some(match version {
        2 => P::Two,
        3 => P::Three,
        5 => P::Five,
        6 => P::Six,
        7 => P::Seven,
        8 => P::Eight,
        _ => return None,
    })
}

macro_rules! login_read_enum_protocol_one {
    ($t:ident, $fin:ident, $pv:expr, $fl:expr, $rd:expr, $budget:expr) => {{
        use wow_login_messages::version_8::opcodes::$t as T;
        let mut polls = 0u64;
        let mut exceeded = false;
        let r: Result<T, ExpectedOpcodeError> = match $fl {
            Flavour::Sync => T::read_protocol(&mut *$rd, $pv),
            Flavour::Tokio => run_async_l!(T::tokio_read_protocol(&mut *$rd, $pv), $budget, polls, exceeded, budget_err()),
            Flavour::Astd => run_async_l!(T::astd_read_protocol(&mut *$rd, $pv), $budget, polls, exceeded, budget_err()),
        };
        LoginOut { result: r.map($fin).map_err(|e| errsig_login(&e)), polls, budget_exceeded: exceeded }
    }};
}

/// read one message of protocol `version` through the protocol-parameterised reader of the collective (version 8) opcode enum
pub fn login_read_enum_protocol(version: u8, dir: Dir, fl: Flavour, rd: &mut SimReader<'_>, budget: u64) -> Option<LoginOut> {
    let pv = protocol_version(version)?;
    Some(match dir {
        Dir::Client => login_read_enum_protocol_one!(ClientOpcodeMessage, login_finish_version_8_client, pv, fl, rd, budget),
        Dir::Server => login_read_enum_protocol_one!(ServerOpcodeMessage, login_finish_version_8_server, pv, fl, rd, budget),
    })
}

macro_rules! login_expect_protocol_one {
    ($ty:path, client, $pv:expr, $fl:expr, $rd:expr, $budget:expr, $fin:expr) => {{
        use wow_login_messages::helper as H;
        let mut polls = 0u64;
        let mut exceeded = false;
        let r: Result<$ty, ExpectedOpcodeError> = match $fl {
            Flavour::Sync => H::expect_client_message_protocol::<$ty, _>(&mut *$rd, $pv),
            Flavour::Tokio => run_async_l!(H::tokio_expect_client_message_protocol::<$ty, _>(&mut *$rd, $pv), $budget, polls, exceeded, budget_err()),
            Flavour::Astd => run_async_l!(H::astd_expect_client_message_protocol::<$ty, _>(&mut *$rd, $pv), $budget, polls, exceeded, budget_err()),
        };
        LoginOut { result: r.map($fin).map_err(|e| errsig_login(&e)), polls, budget_exceeded: exceeded }
    }};
    ($ty:path, server, $pv:expr, $fl:expr, $rd:expr, $budget:expr, $fin:expr) => {{
        use wow_login_messages::helper as H;
        let mut polls = 0u64;
        let mut exceeded = false;
        let r: Result<$ty, ExpectedOpcodeError> = match $fl {
            Flavour::Sync => H::expect_server_message_protocol::<$ty, _>(&mut *$rd, $pv),
            Flavour::Tokio => run_async_l!(H::tokio_expect_server_message_protocol::<$ty, _>(&mut *$rd, $pv), $budget, polls, exceeded, budget_err()),
            Flavour::Astd => run_async_l!(H::astd_expect_server_message_protocol::<$ty, _>(&mut *$rd, $pv), $budget, polls, exceeded, budget_err()),
        };
        LoginOut { result: r.map($fin).map_err(|e| errsig_login(&e)), polls, budget_exceeded: exceeded }
    }};
}

include!(concat!(env!("OUT_DIR"), "/login_protocol_dispatch.rs"));

/// typed protocol-parameterised expect helper for the collective message type `name`
pub fn login_read_expect_protocol(version: u8, dir: Dir, name: &str, fl: Flavour, rd: &mut SimReader<'_>, budget: u64) -> Option<LoginOut> {
    let pv = protocol_version(version)?;
    match dir {
        Dir::Client => login_expect_protocol_client(name, pv, fl, rd, budget),
        Dir::Server => login_expect_protocol_server(name, pv, fl, rd, budget),
    }
}

pub fn login_names(version: u8, dir: Dir) -> &'static [&'static str] {
    match (version, dir) {
        (2, Dir::Client) => LOGIN_NAMES_VERSION_2_CLIENT,
        (2, Dir::Server) => LOGIN_NAMES_VERSION_2_SERVER,
        (3, Dir::Client) => LOGIN_NAMES_VERSION_3_CLIENT,
        (3, Dir::Server) => LOGIN_NAMES_VERSION_3_SERVER,
        (5, Dir::Client) => LOGIN_NAMES_VERSION_5_CLIENT,
        (5, Dir::Server) => LOGIN_NAMES_VERSION_5_SERVER,
        (6, Dir::Client) => LOGIN_NAMES_VERSION_6_CLIENT,
        (6, Dir::Server) => LOGIN_NAMES_VERSION_6_SERVER,
        (7, Dir::Client) => LOGIN_NAMES_VERSION_7_CLIENT,
        (7, Dir::Server) => LOGIN_NAMES_VERSION_7_SERVER,
        (8, Dir::Client) => LOGIN_NAMES_VERSION_8_CLIENT,
        (8, Dir::Server) => LOGIN_NAMES_VERSION_8_SERVER,
        _ => &[],
    }
}

/// read_initial_message (first message of a connection, any protocol version)
pub fn login_read_initial(fl: Flavour, rd: &mut SimReader<'_>, budget: u64) -> LoginOut {
    use wow_login_messages::helper as H;
    use wow_login_messages::Message;
    let mut polls = 0u64;
    let mut exceeded = false;
    let r: Result<H::InitialMessage, ExpectedOpcodeError> = match fl {
        Flavour::Sync => H::read_initial_message(&mut *rd),
        Flavour::Tokio => run_async_l!(H::tokio_read_initial_message(&mut *rd), budget, polls, exceeded, budget_err()),
        Flavour::Astd => run_async_l!(H::astd_read_initial_message(&mut *rd), budget, polls, exceeded, budget_err()),
    };
    let fin = |m: H::InitialMessage| {
        let mut v = Vec::new();
        match &m {
            H::InitialMessage::Logon(l) => {
                let _ = l.write(&mut v);
            }
            H::InitialMessage::Reconnect(l) => {
                let _ = l.write(&mut v);
            }
        }
        (format!("{:?}", m), v)
    };
    LoginOut { result: r.map(fin).map_err(|e| errsig_login(&e)), polls, budget_exceeded: exceeded }
}

macro_rules! login_write_bytes_one {
    ($v:ident, $t:ident, $wf:ident, $bytes:expr, $fl:expr, $w:expr, $budget:expr) => {{
        use wow_login_messages::$v::opcodes::$t as T;
        let s = Schedule::whole();
        let mut r = SimReader::new($bytes, &s);
        match T::read(&mut r) {
            Ok(m) => Some($wf(&m, $fl, $w, $budget)),
            Err(_) => None,
        }
    }};
}

/// decode `bytes` with the blocking enum reader, then write the value through the concrete type's writer of flavour `fl`
pub fn login_write_bytes(version: u8, dir: Dir, bytes: &[u8], fl: Flavour, w: &mut SimWriter<'_>, budget: u64) -> Option<WriteOut> {
    match (version, dir) {
        (2, Dir::Client) => login_write_bytes_one!(version_2, ClientOpcodeMessage, login_write_version_2_client, bytes, fl, w, budget),
        (2, Dir::Server) => login_write_bytes_one!(version_2, ServerOpcodeMessage, login_write_version_2_server, bytes, fl, w, budget),
        (3, Dir::Client) => login_write_bytes_one!(version_3, ClientOpcodeMessage, login_write_version_3_client, bytes, fl, w, budget),
        (3, Dir::Server) => login_write_bytes_one!(version_3, ServerOpcodeMessage, login_write_version_3_server, bytes, fl, w, budget),
        (5, Dir::Client) => login_write_bytes_one!(version_5, ClientOpcodeMessage, login_write_version_5_client, bytes, fl, w, budget),
        (5, Dir::Server) => login_write_bytes_one!(version_5, ServerOpcodeMessage, login_write_version_5_server, bytes, fl, w, budget),
        (6, Dir::Client) => login_write_bytes_one!(version_6, ClientOpcodeMessage, login_write_version_6_client, bytes, fl, w, budget),
        (6, Dir::Server) => login_write_bytes_one!(version_6, ServerOpcodeMessage, login_write_version_6_server, bytes, fl, w, budget),
        (7, Dir::Client) => login_write_bytes_one!(version_7, ClientOpcodeMessage, login_write_version_7_client, bytes, fl, w, budget),
        (7, Dir::Server) => login_write_bytes_one!(version_7, ServerOpcodeMessage, login_write_version_7_server, bytes, fl, w, budget),
        (8, Dir::Client) => login_write_bytes_one!(version_8, ClientOpcodeMessage, login_write_version_8_client, bytes, fl, w, budget),
        (8, Dir::Server) => login_write_bytes_one!(version_8, ServerOpcodeMessage, login_write_version_8_server, bytes, fl, w, budget),
        _ => None,
    }
}
