//! Published update-field table (wowm_language/src/types/update-mask.md), parsed at run time.
//! This is the *only* source of offsets/sizes the reference model uses.

use crate::model::Exp;

#[derive(Clone, Debug, PartialEq)]
pub struct UField {
    pub kind: String, // Object, Item, Container, Unit, Player, GameObject, DynamicObject, Corpse
    pub name: String,
    pub offset: u16,
    pub size: u16,
    pub ty: String, // GUID, INT, FLOAT, BYTES, TWO_SHORT, CUSTOM
}

pub fn repo_root() -> String {
    std::env::var("VERIF_REPO").unwrap_or_else(|_| "/repo".to_string())
}

pub fn load_fields(exp: Exp) -> Result<Vec<UField>, String> {
    let path = format!("{}/wowm_language/src/types/update-mask.md", repo_root());
    let s = std::fs::read_to_string(&path).map_err(|e| format!("{}: {}", path, e))?;
    let want = match exp {
        Exp::Vanilla => "### Version 1.12",
        Exp::Tbc => "### Version 2.4.3",
        Exp::Wrath => "### Version 3.3.5",
    };
    let mut in_ver = false;
    let mut kind = String::new();
    let mut out = Vec::new();
    for line in s.lines() {
        if line.starts_with("### Version") {
            in_ver = line.trim() == want;
            continue;
        }
        if !in_ver {
            continue;
        }
        if let Some(rest) = line.strip_prefix("Fields that all ") {
            let k = rest.split_whitespace().next().unwrap_or("");
            kind = match k {
                "objects" => "Object",
                "items" => "Item",
                "containers" => "Container",
                "units" => "Unit",
                "players" => "Player",
                "gameobjects" => "GameObject",
                "dynamicobjects" => "DynamicObject",
                "corpses" => "Corpse",
                _ => return Err(format!("unknown object kind in table: {}", k)),
            }
            .to_string();
            continue;
        }
        if line.starts_with("|`") {
            let cols: Vec<&str> = line.split('|').map(|c| c.trim()).collect();
            if cols.len() < 5 {
                continue;
            }
            let name = cols[1].trim_matches('`').to_string();
            let offset = u16::from_str_radix(cols[2].trim_start_matches("0x"), 16).map_err(|e| format!("{}: {}", line, e))?;
            let size: u16 = cols[3].parse().map_err(|e| format!("{}: {}", line, e))?;
            out.push(UField { kind: kind.clone(), name, offset, size, ty: cols[4].to_string() });
        }
    }
    if out.is_empty() {
        return Err(format!("no update fields found for {:?}", exp));
    }
    Ok(out)
}
