//! Scans the repository's generated opcode enums (type names only) and emits dispatch tables so
//! that the generic `expect_*::<M>` helpers can be called for every message type M without
//! hand-listing them; follows additions to the repository.

use std::fmt::Write as _;
use std::path::Path;

fn repo() -> String {
    std::env::var("VERIF_REPO").unwrap_or_else(|_| "/repo".to_string())
}

/// (type names that convert into ClientOpcodeMessage, ... into ServerOpcodeMessage)
fn scan(path: &str) -> (Vec<String>, Vec<String>) {
    let s = std::fs::read_to_string(path).unwrap_or_else(|e| panic!("{}: {}", path, e));
    let mut c = Vec::new();
    let mut sv = Vec::new();
    for l in s.lines() {
        if let Some(rest) = l.strip_prefix("impl From<") {
            if let Some((ty, tail)) = rest.split_once("> for ") {
                if tail.starts_with("ClientOpcodeMessage") {
                    c.push(ty.to_string());
                } else if tail.starts_with("ServerOpcodeMessage") {
                    sv.push(ty.to_string());
                }
            }
        }
    }
    (c, sv)
}

const ALWAYS_ASYNC: &[&str] = &[
    "SMSG_WARDEN_DATA",
    "CMSG_WARDEN_DATA",
    "SMSG_NOTIFICATION",
    "CMSG_MESSAGECHAT",
    "SMSG_MESSAGECHAT",
    "SMSG_UPDATE_OBJECT",
    "SMSG_COMPRESSED_UPDATE_OBJECT",
    "CMSG_UPDATE_ACCOUNT_DATA",
    "SMSG_UPDATE_ACCOUNT_DATA",
    "SMSG_ADDON_INFO",
    "CMSG_AUTH_SESSION",
    "CMSG_PING",
    "SMSG_PONG",
];

fn main() {
    let out_dir = std::env::var("OUT_DIR").unwrap();
    let repo = repo();
    println!("cargo:rerun-if-env-changed=VERIF_REPO");
    let mut out = String::new();
    for (exp, av_c, av_s, dv_c, dv_s) in [("vanilla", "VC", "VS", "V", "V"), ("tbc", "TC", "TS", "T", "T"), ("wrath", "WC", "WS", "WS", "WC")] {
        let p = format!("{}/wow_world_messages/src/world/{}/opcodes.rs", repo, exp);
        println!("cargo:rerun-if-changed={}", p);
        let (c, s) = scan(&p);
        for (dir, names, av, dv, opty) in [("client", &c, av_c, dv_c, "ClientOpcodeMessage"), ("server", &s, av_s, dv_s, "ServerOpcodeMessage")] {
            writeln!(out, "pub const NAMES_{}_{}: &[&str] = &[", exp.to_uppercase(), dir.to_uppercase()).unwrap();
            for n in names.iter() {
                writeln!(out, "    \"{}\",", n).unwrap();
            }
            writeln!(out, "];").unwrap();
            writeln!(
                out,
                "pub fn expect_{exp}_{dir}(name: &str, fl: Flavour, dec: Option<&mut DecHalf>, rd: &mut SimReader<'_>, budget: u64) -> Option<(ReadOut, bool)> {{\n    match name {{"
            )
            .unwrap();
            for (i, n) in names.iter().enumerate() {
                let is_async = i % 6 == 0 || ALWAYS_ASYNC.contains(&n.as_str());
                writeln!(
                    out,
                    "        \"{n}\" => Some(expect_body!({exp}, {n}, {opty}, {av}, {dv}, {dir}, {is_async}, fl, dec, rd, budget)),"
                )
                .unwrap();
            }
            writeln!(out, "        _ => None,\n    }}\n}}").unwrap();
        }
    }
    std::fs::write(Path::new(&out_dir).join("world_dispatch.rs"), out).unwrap();

    // login: per protocol version module
    let mut out = String::new();
    for v in ["version_2", "version_3", "version_5", "version_6", "version_7", "version_8"] {
        let p = format!("{}/wow_login_messages/src/logon/{}/opcodes.rs", repo, v);
        println!("cargo:rerun-if-changed={}", p);
        let src = std::fs::read_to_string(&p).unwrap();
        for (dir, opty) in [("client", "ClientOpcodeMessage"), ("server", "ServerOpcodeMessage")] {
            // enum body: VARIANT(TYPE), or VARIANT,
            let start = src.find(&format!("pub enum {} {{", opty)).expect("enum");
            let body = &src[start..];
            let end = body.find("\n}").unwrap();
            let mut variants: Vec<(String, Option<String>)> = Vec::new();
            for l in body[..end].lines().skip(1) {
                let l = l.trim().trim_end_matches(',');
                if l.is_empty() {
                    continue;
                }
                if let Some((a, b)) = l.split_once('(') {
                    variants.push((a.to_string(), Some(b.trim_end_matches(')').to_string())));
                } else {
                    variants.push((l.to_string(), None));
                }
            }
            let all_dir = format!("{}/wow_login_messages/src/logon/all", repo);
            let path_of = |ty: &str| -> String {
                let f = format!("{}/{}.rs", all_dir, ty.to_lowercase());
                if Path::new(&f).exists() {
                    format!("wow_login_messages::all::{}", ty)
                } else {
                    format!("wow_login_messages::{}::{}", v, ty)
                }
            };
            let tag = format!("{}_{}", v, dir);
            writeln!(out, "pub const LOGIN_NAMES_{}: &[&str] = &[", tag.to_uppercase()).unwrap();
            for (var, ty) in &variants {
                writeln!(out, "    \"{}\",", ty.clone().unwrap_or(var.clone())).unwrap();
            }
            writeln!(out, "];").unwrap();
            // writer through the concrete type
            writeln!(out, "pub fn login_write_{tag}(m: &wow_login_messages::{v}::opcodes::{opty}, fl: Flavour, w: &mut SimWriter<'_>, budget: u64) -> WriteOut {{\n    use wow_login_messages::{v}::opcodes::{opty} as T;\n    match m {{").unwrap();
            for (var, ty) in &variants {
                match ty {
                    Some(_) => writeln!(out, "        T::{var}(x) => login_write_one!(x, fl, w, budget),").unwrap(),
                    None => writeln!(out, "        T::{var} => {{ let x = {}::default(); login_write_one!(&x, fl, w, budget) }}", path_of(var)).unwrap(),
                }
            }
            writeln!(out, "    }}\n}}").unwrap();
            // typed expect helper
            writeln!(out, "pub fn login_expect_{tag}(name: &str, fl: Flavour, rd: &mut SimReader<'_>, budget: u64) -> Option<LoginOut> {{\n    match name {{").unwrap();
            for (var, ty) in &variants {
                let tyn = ty.clone().unwrap_or(var.clone());
                writeln!(out, "        \"{tyn}\" => Some(login_expect_one!({}, {dir}, fl, rd, budget, |m| login_finish_{tag}(wow_login_messages::{v}::opcodes::{opty}::from(m)))),", path_of(&tyn)).unwrap();
            }
            writeln!(out, "        _ => None,\n    }}\n}}").unwrap();
            writeln!(out, "pub fn login_finish_{tag}(m: wow_login_messages::{v}::opcodes::{opty}) -> (String, Vec<u8>) {{\n    let s = Schedule::whole();\n    let mut w = SimWriter::new(&s);\n    let _ = login_write_{tag}(&m, Flavour::Sync, &mut w, 0);\n    (format!(\"{{:?}}\", m), w.data)\n}}").unwrap();
        }
    }
    std::fs::write(Path::new(&out_dir).join("login_dispatch.rs"), out).unwrap();
}
