//! Scans the repository's generated opcode enums (type names only) and emits dispatch tables so
//! that the generic `expect_*::<M>` helpers can be called for every message type M without
//! hand-listing them; follows additions to the repository.

use std::fmt::Write as _;
use std::path::Path;

fn repo() -> String {
    std::env::var("VERIF_REPO").unwrap_or_else(|_| "/repo".to_string())
}

/// (type names that convert into ClientOpcodeMessage, ... into ServerOpcodeMessage)
fn scan(path: &str) -> (Vec<String>, Vec<String>) {
    let s = std::fs::read_to_string(path).unwrap_or_else(|e| panic!("{}: {}", path, e));
    let mut c = Vec::new();
    let mut sv = Vec::new();
    for l in s.lines() {
        if let Some(rest) = l.strip_prefix("impl From<") {
            if let Some((ty, tail)) = rest.split_once("> for ") {
                if tail.starts_with("ClientOpcodeMessage") {
                    c.push(ty.to_string());
                } else if tail.starts_with("ServerOpcodeMessage") {
                    sv.push(ty.to_string());
                }
            }
        }
    }
    (c, sv)
}

const ALWAYS_ASYNC: &[&str] = &[
    "SMSG_WARDEN_DATA",
    "CMSG_WARDEN_DATA",
    "SMSG_NOTIFICATION",
    "CMSG_MESSAGECHAT",
    "SMSG_MESSAGECHAT",
    "SMSG_UPDATE_OBJECT",
    "SMSG_COMPRESSED_UPDATE_OBJECT",
    "CMSG_UPDATE_ACCOUNT_DATA",
    "SMSG_UPDATE_ACCOUNT_DATA",
    "SMSG_ADDON_INFO",
    "CMSG_AUTH_SESSION",
    "CMSG_PING",
    "SMSG_PONG",
];

fn main() {
    let out_dir = std::env::var("OUT_DIR").unwrap();
    let repo = repo();
    println!("cargo:rerun-if-env-changed=VERIF_REPO");
    let mut out = String::new();
    for (exp, av_c, av_s, dv_c, dv_s) in [("vanilla", "VC", "VS", "V", "V"), ("tbc", "TC", "TS", "T", "T"), ("wrath", "WC", "WS", "WS", "WC")] {
        let p = format!("{}/wow_world_messages/src/world/{}/opcodes.rs", repo, exp);
        println!("cargo:rerun-if-changed={}", p);
        let (c, s) = scan(&p);
        for (dir, names, av, dv, opty) in [("client", &c, av_c, dv_c, "ClientOpcodeMessage"), ("server", &s, av_s, dv_s, "ServerOpcodeMessage")] {
            writeln!(out, "pub const NAMES_{}_{}: &[&str] = &[", exp.to_uppercase(), dir.to_uppercase()).unwrap();
            for n in names.iter() {
                writeln!(out, "    \"{}\",", n).unwrap();
            }
            writeln!(out, "];").unwrap();
            writeln!(
                out,
                "pub fn expect_{exp}_{dir}(name: &str, fl: Flavour, dec: Option<&mut DecHalf>, rd: &mut SimReader<'_>, budget: u64) -> Option<(ReadOut, bool)> {{\n    match name {{"
            )
            .unwrap();
            for (i, n) in names.iter().enumerate() {
                let is_async = i % 6 == 0 || ALWAYS_ASYNC.contains(&n.as_str());
                writeln!(
                    out,
                    "        \"{n}\" => Some(expect_body!({exp}, {n}, {opty}, {av}, {dv}, {dir}, {is_async}, fl, dec, rd, budget)),"
                )
                .unwrap();
            }
            writeln!(out, "        _ => None,\n    }}\n}}").unwrap();
        }
    }
    std::fs::write(Path::new(&out_dir).join("world_dispatch.rs"), out).unwrap();

    // login: per protocol version module
    let mut out = String::new();
    for v in ["version_2", "version_3", "version_5", "version_6", "version_7", "version_8"] {
        let p = format!("{}/wow_login_messages/src/logon/{}/opcodes.rs", repo, v);
        println!("cargo:rerun-if-changed={}", p);
        let src = std::fs::read_to_string(&p).unwrap();
        for (dir, opty) in [("client", "ClientOpcodeMessage"), ("server", "ServerOpcodeMessage")] {
            // enum body: VARIANT(TYPE), or VARIANT,
            let start = src.find(&format!("pub enum {} {{", opty)).expect("enum");
            let body = &src[start..];
            let end = body.find("\n}").unwrap();
            let mut variants: Vec<(String, Option<String>)> = Vec::new();
            for l in body[..end].lines().skip(1) {
                let l = l.trim().trim_end_matches(',');
                if l.is_empty() {
                    continue;
                }
                if let Some((a, b)) = l.split_once('(') {
                    variants.push((a.to_string(), Some(b.trim_end_matches(')').to_string())));
                } else {
                    variants.push((l.to_string(), None));
                }
            }
            let all_dir = format!("{}/wow_login_messages/src/logon/all", repo);
            let path_of = |ty: &str| -> String {
                let f = format!("{}/{}.rs", all_dir, ty.to_lowercase());
                if Path::new(&f).exists() {
                    format!("wow_login_messages::all::{}", ty)
                } else {
                    format!("wow_login_messages::{}::{}", v, ty)
                }
            };
            let tag = format!("{}_{}", v, dir);
            writeln!(out, "pub const LOGIN_NAMES_{}: &[&str] = &[", tag.to_uppercase()).unwrap();
            for (var, ty) in &variants {
                writeln!(out, "    \"{}\",", ty.clone().unwrap_or(var.clone())).unwrap();
            }
            writeln!(out, "];").unwrap();
            // writer through the concrete type
            writeln!(out, "pub fn login_write_{tag}(m: &wow_login_messages::{v}::opcodes::{opty}, fl: Flavour, w: &mut SimWriter<'_>, budget: u64) -> WriteOut {{\n    use wow_login_messages::{v}::opcodes::{opty} as T;\n    match m {{").unwrap();
            for (var, ty) in &variants {
                match ty {
                    Some(_) => writeln!(out, "        T::{var}(x) => login_write_one!(x, fl, w, budget),").unwrap(),
                    None => writeln!(out, "        T::{var} => {{ let x = {}::default(); login_write_one!(&x, fl, w, budget) }}", path_of(var)).unwrap(),
                }
            }
            writeln!(out, "    }}\n}}").unwrap();
            // typed expect helper
            writeln!(out, "pub fn login_expect_{tag}(name: &str, fl: Flavour, rd: &mut SimReader<'_>, budget: u64) -> Option<LoginOut> {{\n    match name {{").unwrap();
            for (var, ty) in &variants {
                let tyn = ty.clone().unwrap_or(var.clone());
                writeln!(out, "        \"{tyn}\" => Some(login_expect_one!({}, {dir}, fl, rd, budget, |m| login_finish_{tag}(wow_login_messages::{v}::opcodes::{opty}::from(m)))),", path_of(&tyn)).unwrap();
            }
            writeln!(out, "        _ => None,\n    }}\n}}").unwrap();
            writeln!(out, "pub fn login_finish_{tag}(m: wow_login_messages::{v}::opcodes::{opty}) -> (String, Vec<u8>) {{\n    let s = Schedule::whole();\n    let mut w = SimWriter::new(&s);\n    let _ = login_write_{tag}(&m, Flavour::Sync, &mut w, 0);\n    (format!(\"{{:?}}\", m), w.data)\n}}").unwrap();
        }
    }
    std::fs::write(Path::new(&out_dir).join("login_dispatch.rs"), out).unwrap();

    // login: protocol-parameterised expect helpers, for the version 8 types that implement CollectiveMessage
    let mut out = String::new();
    {
        let v = "version_8";
        let p = format!("{}/wow_login_messages/src/logon/{}/opcodes.rs", repo, v);
        let src = std::fs::read_to_string(&p).unwrap();
        let coll_dir = format!("{}/wow_login_messages/src/collective", repo);
        println!("cargo:rerun-if-changed={}", coll_dir);
        for (dir, opty) in [("client", "ClientOpcodeMessage"), ("server", "ServerOpcodeMessage")] {
            let start = src.find(&format!("pub enum {} {{", opty)).expect("enum");
            let body = &src[start..];
            let end = body.find("\n}").unwrap();
            let mut types: Vec<String> = Vec::new();
            for l in body[..end].lines().skip(1) {
                let l = l.trim().trim_end_matches(',');
                if l.is_empty() {
                    continue;
                }
                let ty = match l.split_once('(') {
                    Some((_, b)) => b.trim_end_matches(')').to_string(),
                    None => l.to_string(),
                };
                if Path::new(&format!("{}/{}.rs", coll_dir, ty.to_lowercase())).exists() {
                    types.push(ty);
                }
            }
            let all_dir = format!("{}/wow_login_messages/src/logon/all", repo);
            writeln!(out, "pub fn login_expect_protocol_{dir}(name: &str, pv: wow_login_messages::all::ProtocolVersion, fl: Flavour, rd: &mut SimReader<'_>, budget: u64) -> Option<LoginOut> {{\n    match name {{").unwrap();
            for ty in &types {
                let path = if Path::new(&format!("{}/{}.rs", all_dir, ty.to_lowercase())).exists() { format!("wow_login_messages::all::{}", ty) } else { format!("wow_login_messages::{}::{}", v, ty) };
                writeln!(out, "        \"{ty}\" => Some(login_expect_protocol_one!({path}, {dir}, pv, fl, rd, budget, |m| login_finish_{v}_{dir}(wow_login_messages::{v}::opcodes::{opty}::from(m)))),").unwrap();
            }
            writeln!(out, "        _ => None,\n    }}\n}}").unwrap();
        }
    }
    std::fs::write(Path::new(&out_dir).join("login_protocol_dispatch.rs"), out).unwrap();

    // update mask accessors: scan function signatures of the generated impls.rs
    let mut out = String::new();
    let kinds = ["Item", "Container", "Unit", "Player", "GameObject", "DynamicObject", "Corpse"];
    let mut variants = Vec::new();
    for exp in ["vanilla", "tbc", "wrath"] {
        let p = format!("{}/wow_world_messages/src/helper/{}/update_mask/impls.rs", repo, exp);
        println!("cargo:rerun-if-changed={}", p);
        let src = std::fs::read_to_string(&p).unwrap();
        let mut cur = String::new();
        // (type, fn name, class, argty)
        let mut fns: Vec<(String, String, &'static str, &'static str)> = Vec::new();
        let mut skipped = 0usize;
        for l in src.lines() {
            if let Some(rest) = l.strip_prefix("impl ") {
                cur = rest.trim_end_matches(" {").trim().to_string();
                continue;
            }
            let l = l.trim();
            let Some(rest) = l.strip_prefix("pub fn ") else { continue };
            let Some((name, sig)) = rest.split_once('(') else { continue };
            let sig = sig.trim_end_matches(" {").trim();
            let argty = |s: &str| -> Option<&'static str> {
                let parts: Vec<&str> = s.split(", ").collect();
                Some(match s {
                    "v: i32" => "I",
                    "v: f32" => "F",
                    "v: Guid" => "G",
                    "a: u16, b: u16" => "S",
                    "race: Race, class: Class, gender: Gender, power: Power" => "R",
                    "stand_state: UnitStandState, unknown1: u8, unknown2: u8, unknown3: u8" => "U",
                    _ if parts.len() == 4 && parts.iter().all(|p| p.ends_with(": u8")) => "B",
                    _ if parts.len() == 2 && parts[0].starts_with("item_slot: ") && parts[0].ends_with("::ItemSlot") && parts[1] == "item: Guid" => "SG",
                    _ => return None,
                })
            };
            if let Some(args) = sig.strip_prefix("mut self, ").and_then(|x| x.strip_suffix(") -> Self")) {
                match argty(args) {
                    Some(t) => fns.push((cur.clone(), name.to_string(), "bset", t)),
                    None => skipped += 1,
                }
            } else if let Some(args) = sig.strip_prefix("&mut self, ").and_then(|x| x.strip_suffix(")")) {
                match argty(args) {
                    Some(t) => fns.push((cur.clone(), name.to_string(), "set", t)),
                    None => skipped += 1,
                }
            } else if let Some(ret) = sig.strip_prefix("&self) -> Option<").and_then(|x| x.strip_suffix(">")) {
                let t = match ret {
                    "i32" => Some("I"),
                    "f32" => Some("F"),
                    "Guid" => Some("G"),
                    "(u8, u8, u8, u8)" => Some("B"),
                    "(u16, u16)" => Some("S"),
                    "(Race, Class, Gender, Power)" => Some("R"),
                    "(UnitStandState, u8, u8, u8)" => Some("U"),
                    _ => None,
                };
                match t {
                    Some(t) => fns.push((cur.clone(), name.to_string(), "get", t)),
                    None => skipped += 1,
                }
            } else if sig.starts_with("&self, item_slot: ") && sig.ends_with("::ItemSlot) -> Option<Guid>") {
                fns.push((cur.clone(), name.to_string(), "get", "SG"));
            } else {
                skipped += 1;
            }
        }
        let e = exp.to_uppercase();
        writeln!(out, "pub const UM_SKIPPED_{e}: usize = {skipped};").unwrap();
        writeln!(out, "pub const UM_SETTERS_{e}: &[(&str, &str, &str)] = &[").unwrap();
        for (ty, name, class, t) in &fns {
            if *class == "set" {
                writeln!(out, "    (\"{}\", \"{}\", \"{}\"),", ty.trim_start_matches("Update"), name.trim_start_matches("set_"), t).unwrap();
            }
        }
        writeln!(out, "];").unwrap();
        let arg_pat = |t: &str| -> (String, String, String) {
            // (pattern, guard producing converted values or empty, call arguments)
            match t {
                "I" => ("Arg::I(v)".into(), String::new(), "*v".into()),
                "F" => ("Arg::F(v)".into(), String::new(), "*v".into()),
                "G" => ("Arg::G(v)".into(), String::new(), "wow_world_messages::Guid::new(*v)".into()),
                "B" => ("Arg::B(a, b, c, d)".into(), String::new(), "*a, *b, *c, *d".into()),
                "S" => ("Arg::S(a, b)".into(), String::new(), "*a, *b".into()),
                "R" => ("Arg::B(a, b, c, d)".into(), format!("let (Ok(a), Ok(b), Ok(c), Ok(d)) = (wow_world_messages::{exp}::Race::try_from(*a), wow_world_messages::{exp}::Class::try_from(*b), wow_world_messages::{exp}::Gender::try_from(*c), wow_world_messages::{exp}::Power::try_from(*d)) else {{ return ERR; }};"), "a, b, c, d".into()),
                "U" => ("Arg::B(a, b, c, d)".into(), format!("let Ok(a) = wow_world_messages::{exp}::UnitStandState::try_from(*a) else {{ return ERR; }};"), "a, *b, *c, *d".into()),
                _ => ("Arg::SG(slot, v)".into(), format!("let Ok(slot) = wow_world_messages::{exp}::ItemSlot::try_from(*slot) else {{ return ERR; }};"), "slot, wow_world_messages::Guid::new(*v)".into()),
            }
        };
        // mask setters
        writeln!(out, "pub fn um_set_{exp}(m: &mut AnyMask, name: &str, a: &Arg) -> bool {{\n    match (m, name, a) {{").unwrap();
        for (ty, name, class, t) in &fns {
            if *class == "set" {
                let k = ty.trim_start_matches("Update");
                let (pat, guard, call) = arg_pat(t);
                let guard = guard.replace("ERR", "false");
                writeln!(out, "        (AnyMask::{e}{k}(x), \"{}\", {pat}) => {{ {guard} x.{name}({call}); true }}", name.trim_start_matches("set_")).unwrap();
            }
        }
        writeln!(out, "        _ => false,\n    }}\n}}").unwrap();
        // builder setters
        writeln!(out, "pub fn um_bset_{exp}(m: AnyBuilder, name: &str, a: &Arg) -> Result<AnyBuilder, AnyBuilder> {{\n    match (m, name, a) {{").unwrap();
        for (ty, name, class, t) in &fns {
            if *class == "bset" {
                let k = ty.trim_start_matches("Update").trim_end_matches("Builder");
                let (pat, guard, call) = arg_pat(t);
                let guard = guard.replace("return ERR;", &format!("return Err(AnyBuilder::{e}{k}(x));"));
                writeln!(out, "        (AnyBuilder::{e}{k}(x), \"{}\", {pat}) => {{ {guard} Ok(AnyBuilder::{e}{k}(x.{name}({call}))) }}", name.trim_start_matches("set_")).unwrap();
            }
        }
        writeln!(out, "        (m, _, _) => Err(m),\n    }}\n}}").unwrap();
        // getters
        writeln!(out, "pub fn um_get_{exp}(m: &AnyMask, name: &str, slot: u8) -> Option<Got> {{\n    let _ = slot;\n    match (m, name) {{").unwrap();
        for (ty, name, class, t) in &fns {
            if *class == "get" {
                let k = ty.trim_start_matches("Update");
                let conv = match *t {
                    "I" => "x.NAME().map(Got::I)".to_string(),
                    "F" => "x.NAME().map(|v| Got::F(v.to_bits()))".to_string(),
                    "G" => "x.NAME().map(|v| Got::G(v.guid()))".to_string(),
                    "B" => "x.NAME().map(|(a, b, c, d)| Got::B(a, b, c, d))".to_string(),
                    "S" => "x.NAME().map(|(a, b)| Got::S(a, b))".to_string(),
                    "R" => "x.NAME().map(|(a, b, c, d)| Got::B(a.as_int(), b.as_int(), c.as_int(), d.as_int()))".to_string(),
                    "U" => "x.NAME().map(|(a, b, c, d)| Got::B(a.as_int(), b, c, d))".to_string(),
                    _ => format!("wow_world_messages::{exp}::ItemSlot::try_from(slot).ok().and_then(|s| x.NAME(s)).map(|v| Got::G(v.guid()))"),
                }
                .replace("NAME", name);
                writeln!(out, "        (AnyMask::{e}{k}(x), \"{name}\") => Some({conv}.unwrap_or(Got::Absent)),").unwrap();
            }
        }
        writeln!(out, "        _ => None,\n    }}\n}}").unwrap();
        for k in kinds {
            variants.push((exp.to_string(), e.clone(), k.to_string()));
        }
    }
    writeln!(out, "#[derive(Clone, Debug, PartialEq)]\npub enum AnyMask {{").unwrap();
    for (exp, e, k) in &variants {
        writeln!(out, "    {e}{k}(wow_world_messages::{exp}::Update{k}),").unwrap();
    }
    writeln!(out, "}}\n#[derive(Clone, Debug, PartialEq)]\npub enum AnyBuilder {{").unwrap();
    for (exp, e, k) in &variants {
        writeln!(out, "    {e}{k}(wow_world_messages::{exp}::Update{k}Builder),").unwrap();
    }
    writeln!(out, "}}").unwrap();
    writeln!(out, "pub fn um_new_builder(exp: Exp, kind: &str) -> Option<AnyBuilder> {{\n    Some(match (exp, kind) {{").unwrap();
    for (exp, e, k) in &variants {
        let ev = match exp.as_str() { "vanilla" => "Vanilla", "tbc" => "Tbc", _ => "Wrath" };
        writeln!(out, "        (Exp::{ev}, \"{k}\") => AnyBuilder::{e}{k}(wow_world_messages::{exp}::Update{k}::builder()),").unwrap();
    }
    writeln!(out, "        _ => return None,\n    }})\n}}").unwrap();
    writeln!(out, "pub fn um_finalize(b: AnyBuilder) -> AnyMask {{\n    match b {{").unwrap();
    for (_, e, k) in &variants {
        writeln!(out, "        AnyBuilder::{e}{k}(x) => AnyMask::{e}{k}(x.finalize()),").unwrap();
    }
    writeln!(out, "    }}\n}}").unwrap();
    for (f, sig, body) in [
        ("dirty_reset", "m: &mut AnyMask", "x.dirty_reset()"),
        ("mark_fully_dirty", "m: &mut AnyMask", "x.mark_fully_dirty()"),
    ] {
        writeln!(out, "pub fn um_{f}({sig}) {{\n    match m {{").unwrap();
        for (_, e, k) in &variants {
            writeln!(out, "        AnyMask::{e}{k}(x) => {body},").unwrap();
        }
        writeln!(out, "    }}\n}}").unwrap();
    }
    writeln!(out, "pub fn um_has_any_dirty_fields(m: &AnyMask) -> bool {{\n    match m {{").unwrap();
    for (_, e, k) in &variants {
        writeln!(out, "        AnyMask::{e}{k}(x) => x.has_any_dirty_fields(),").unwrap();
    }
    writeln!(out, "    }}\n}}").unwrap();
    writeln!(out, "pub fn um_is_bit_dirty(m: &AnyMask, bit: u16) -> bool {{\n    match m {{").unwrap();
    for (_, e, k) in &variants {
        writeln!(out, "        AnyMask::{e}{k}(x) => x.is_bit_dirty(bit),").unwrap();
    }
    writeln!(out, "    }}\n}}").unwrap();
    // into the version's UpdateMask and back
    for (exp, e) in [("vanilla", "VANILLA"), ("tbc", "TBC"), ("wrath", "WRATH")] {
        writeln!(out, "pub fn um_into_{exp}(m: &AnyMask) -> Option<wow_world_messages::{exp}::UpdateMask> {{\n    Some(match m {{").unwrap();
        for k in kinds {
            writeln!(out, "        AnyMask::{e}{k}(x) => wow_world_messages::{exp}::UpdateMask::{k}(x.clone()),").unwrap();
        }
        writeln!(out, "        _ => return None,\n    }})\n}}").unwrap();
        writeln!(out, "pub fn um_from_{exp}(m: wow_world_messages::{exp}::UpdateMask) -> AnyMask {{\n    match m {{").unwrap();
        for k in kinds {
            writeln!(out, "        wow_world_messages::{exp}::UpdateMask::{k}(x) => AnyMask::{e}{k}(x),").unwrap();
        }
        writeln!(out, "    }}\n}}").unwrap();
    }
    std::fs::write(Path::new(&out_dir).join("um_dispatch.rs"), out).unwrap();
}
