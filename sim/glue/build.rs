//! Scans the repository's generated opcode enums (type names only) and emits dispatch tables so
//! that the generic `expect_*::<M>` helpers can be called for every message type M without
//! hand-listing them; follows additions to the repository.

use std::fmt::Write as _;
use std::path::Path;

fn repo() -> String {
    std::env::var("VERIF_REPO").unwrap_or_else(|_| "/repo".to_string())
}

/// (type names that convert into ClientOpcodeMessage, ... into ServerOpcodeMessage)
fn scan(path: &str) -> (Vec<String>, Vec<String>) {
    let s = std::fs::read_to_string(path).unwrap_or_else(|e| panic!("{}: {}", path, e));
    let mut c = Vec::new();
    let mut sv = Vec::new();
    for l in s.lines() {
        if let Some(rest) = l.strip_prefix("impl From<") {
            if let Some((ty, tail)) = rest.split_once("> for ") {
                if tail.starts_with("ClientOpcodeMessage") {
                    c.push(ty.to_string());
                } else if tail.starts_with("ServerOpcodeMessage") {
                    sv.push(ty.to_string());
                }
            }
        }
    }
    (c, sv)
}

const ALWAYS_ASYNC: &[&str] = &[
    "SMSG_WARDEN_DATA",
    "CMSG_WARDEN_DATA",
    "SMSG_NOTIFICATION",
    "CMSG_MESSAGECHAT",
    "SMSG_MESSAGECHAT",
    "SMSG_UPDATE_OBJECT",
    "SMSG_COMPRESSED_UPDATE_OBJECT",
    "CMSG_UPDATE_ACCOUNT_DATA",
    "SMSG_UPDATE_ACCOUNT_DATA",
    "SMSG_ADDON_INFO",
    "CMSG_AUTH_SESSION",
    "CMSG_PING",
    "SMSG_PONG",
];

fn main() {
    let out_dir = std::env::var("OUT_DIR").unwrap();
    let repo = repo();
    println!("cargo:rerun-if-env-changed=VERIF_REPO");
    let mut out = String::new();
    for (exp, av_c, av_s, dv_c, dv_s) in [("vanilla", "VC", "VS", "V", "V"), ("tbc", "TC", "TS", "T", "T"), ("wrath", "WC", "WS", "WS", "WC")] {
        let p = format!("{}/wow_world_messages/src/world/{}/opcodes.rs", repo, exp);
        println!("cargo:rerun-if-changed={}", p);
        let (c, s) = scan(&p);
        for (dir, names, av, dv, opty) in [("client", &c, av_c, dv_c, "ClientOpcodeMessage"), ("server", &s, av_s, dv_s, "ServerOpcodeMessage")] {
            writeln!(out, "pub const NAMES_{}_{}: &[&str] = &[", exp.to_uppercase(), dir.to_uppercase()).unwrap();
            for n in names.iter() {
                writeln!(out, "    \"{}\",", n).unwrap();
            }
            writeln!(out, "];").unwrap();
            writeln!(
                out,
                "pub fn expect_{exp}_{dir}(name: &str, fl: Flavour, dec: Option<&mut DecHalf>, rd: &mut SimReader<'_>, budget: u64) -> Option<(ReadOut, bool)> {{\n    match name {{"
            )
            .unwrap();
            for (i, n) in names.iter().enumerate() {
                let is_async = i % 6 == 0 || ALWAYS_ASYNC.contains(&n.as_str());
                writeln!(
                    out,
                    "        \"{n}\" => Some(expect_body!({exp}, {n}, {opty}, {av}, {dv}, {dir}, {is_async}, fl, dec, rd, budget)),"
                )
                .unwrap();
            }
            writeln!(out, "        _ => None,\n    }}\n}}").unwrap();
        }
    }
    std::fs::write(Path::new(&out_dir).join("world_dispatch.rs"), out).unwrap();

    // login: per protocol version module
    let mut out = String::new();
    for v in ["version_2", "version_3", "version_5", "version_6", "version_7", "version_8"] {
        let p = format!("{}/wow_login_messages/src/logon/{}/opcodes.rs", repo, v);
        println!("cargo:rerun-if-changed={}", p);
        let (c, s) = scan(&p);
        for (dir, names) in [("client", &c), ("server", &s)] {
            writeln!(out, "pub const LOGIN_NAMES_{}_{}: &[&str] = &[", v.to_uppercase(), dir.to_uppercase()).unwrap();
            for n in names.iter() {
                writeln!(out, "    \"{}\",", n).unwrap();
            }
            writeln!(out, "];").unwrap();
        }
    }
    std::fs::write(Path::new(&out_dir).join("login_dispatch.rs"), out).unwrap();
}
