//! C02 — framing is exact; streams stay aligned.
//! A session: one node writes a sequence of world messages with the library's writers onto one
//! simulated stream, the other reads them back with the library's readers under a scheduled
//! delivery. Oracles: no abort while writing, header truth (independent header decoder), alignment
//! after every message, sequence equality, bounded liveness.

use crate::core::*;
use crate::model::*;
use crate::pipe::{Schedule, SimReader, SimWriter};
use crate::rng::{Fnv, Rng};
use crate::sess::*;
use crate::world::*;
use serde_json::{json, Value};

pub struct WorldCtx {
    pub corpus: &'static crate::wowm::Corpus,
    pub models: Vec<Model<'static>>, // indexed by Exp order
    /// names of messages with a compressed member or compressed as a whole, per exp*2+dir
    pub compressed: Vec<Vec<String>>,
}

impl WorldCtx {
    pub fn new() -> WorldCtx {
        let corpus: &'static crate::wowm::Corpus = Box::leak(Box::new(load_corpus_or_exit()));
        let models: Vec<Model<'static>> = Exp::ALL.iter().map(|e| model_or_exit(corpus, Target::World(*e))).collect();
        let mut compressed = Vec::new();
        for m in &models {
            for d in [Dir::Client, Dir::Server] {
                compressed.push(
                    m.messages_dir(d)
                        .iter()
                        .filter(|c| crate::wowm::tag(&c.tags, "compressed") == Some("true") || format!("{:?}", c.members).contains("(\"compressed\", \"true\")"))
                        .map(|c| c.name.clone())
                        .collect(),
                );
            }
        }
        WorldCtx { corpus, models, compressed }
    }
    pub fn compressed_names(&self, e: Exp, d: Dir) -> &Vec<String> {
        &self.compressed[Exp::ALL.iter().position(|x| *x == e).unwrap() * 2 + if d == Dir::Client { 0 } else { 1 }]
    }
    /// a large compressed message (incompressible payload) whose wire size lands around a header-form boundary
    pub fn big_compressed_frame(&self, e: Exp, d: Dir, rng: &mut Rng) -> Option<(Value, String)> {
        let names = self.compressed_names(e, d);
        if names.is_empty() {
            return None;
        }
        let name = rng.pick(names).clone();
        let target = match rng.below(3) {
            0 => 0x7FC0 + rng.below(0x80) as usize,
            1 => 0xFF80 + rng.below(0x60) as usize,
            _ => 0x4000 + rng.below(0x10000) as usize,
        };
        self.big_compressed_frame_of(e, d, rng, &name, target)
    }
    /// the compressed message `name` with an incompressible payload of about `target` bytes on the wire
    pub fn big_compressed_frame_of(&self, e: Exp, d: Dir, rng: &mut Rng, name: &str, target: usize) -> Option<(Value, String)> {
        let m = self.model(e);
        let c = m.message(name)?;
        let knobs = Knobs { endless_len: Some(target), max_arr: 600, size_budget: target + 2000, ..Knobs::default() };
        let f = m.encode(c, rng, &knobs).ok()?;
        if f.wire_body().len() > max_expressible_body(e, d) {
            return None;
        }
        Some((bytes_to_json(&world_wire(e, d, &f)), f.name))
    }
    pub fn model(&self, e: Exp) -> &Model<'static> {
        &self.models[Exp::ALL.iter().position(|x| *x == e).unwrap()]
    }
}

/// number of consecutive raw sizes in the compressed sweep
const COMPRESSED_SWEEP: u64 = 33;

pub struct C02 {
    pub ctx: WorldCtx,
    sweep: Vec<(Exp, Dir, usize)>,
    /// every world message once: (exp, dir, index into messages_dir)
    per_msg: Vec<(Exp, Dir, usize)>,
}

/// body lengths around every boundary the property names
pub fn sweep_lengths(exp: Exp, dir: Dir) -> Vec<usize> {
    let max_expressible = match (exp, dir) {
        (_, Dir::Client) => 0xFFFF - 4,
        (Exp::Wrath, Dir::Server) => 0x7FFFFF - 2,
        (_, Dir::Server) => 0xFFFF - 2,
    };
    let mut v: Vec<usize> = (0..=16).collect();
    v.extend(0x7FF0..=0x8010);
    v.extend(0xFFE8..=0xFFFF); // WARDEN_DATA's own size window ends at 0xFFFF; larger Wrath bodies come from the sampled part
    v.extend([100, 255, 256, 1000, 4096, 10236, 10240, 10241, 0x4000, 0xC000]);
    v.retain(|l| *l <= max_expressible);
    v.sort();
    v.dedup();
    v
}

/// every multiple of 256 up to 0xFF00 with its two neighbours: buffer and chunk sizes are such numbers, and arithmetic on
/// lengths tends to be wrong exactly there (only lengths not already in `sweep_lengths`)
pub fn sweep_lengths_256(exp: Exp, dir: Dir) -> Vec<usize> {
    let base = sweep_lengths(exp, dir);
    let max_expressible = max_expressible_body(exp, dir).min(0xFFFF);
    let mut v = Vec::new();
    for k in 1..=255usize {
        for l in [k * 256 - 1, k * 256, k * 256 + 1] {
            if l <= max_expressible && !base.contains(&l) {
                v.push(l);
            }
        }
    }
    v
}

fn warden(exp: Exp, dir: Dir, len: usize) -> AnyMsg {
    let data: Vec<u8> = (0..len).map(|i| (i * 31 % 251) as u8).collect();
    match (exp, dir) {
        (Exp::Vanilla, Dir::Client) => AnyMsg::VC(Box::new(wow_world_messages::vanilla::CMSG_WARDEN_DATA { encrypted_data: data }.into())),
        (Exp::Vanilla, Dir::Server) => AnyMsg::VS(Box::new(wow_world_messages::vanilla::SMSG_WARDEN_DATA { encrypted_data: data }.into())),
        (Exp::Tbc, Dir::Client) => AnyMsg::TC(Box::new(wow_world_messages::tbc::CMSG_WARDEN_DATA { encrypted_data: data }.into())),
        (Exp::Tbc, Dir::Server) => AnyMsg::TS(Box::new(wow_world_messages::tbc::SMSG_WARDEN_DATA { encrypted_data: data }.into())),
        (Exp::Wrath, Dir::Client) => AnyMsg::WC(Box::new(wow_world_messages::wrath::CMSG_WARDEN_DATA { encrypted_data: data }.into())),
        (Exp::Wrath, Dir::Server) => AnyMsg::WS(Box::new(wow_world_messages::wrath::SMSG_WARDEN_DATA { encrypted_data: data }.into())),
    }
}

/// a Wrath SMSG_COMPRESSED_UPDATE_OBJECT (its writers are overridden and decide the header form themselves) whose single
/// OUT_OF_RANGE_OBJECTS block lists guids with `raw` packed bytes in total: incompressible, so the compressed size moves
/// byte by byte with `raw`
fn compressed_update_object(raw: usize, seed: u64) -> AnyMsg {
    use wow_world_messages::wrath::{Object, SMSG_COMPRESSED_UPDATE_OBJECT};
    let mut rng = Rng::new(seed);
    let mut guids = Vec::new();
    let full = raw / 9;
    let part = raw % 9;
    let mut byte = |rng: &mut Rng| 1 + rng.below(255);
    for _ in 0..full {
        let mut g = 0u64;
        for k in 0..8 {
            g |= byte(&mut rng) << (8 * k);
        }
        guids.push(wow_world_messages::Guid::new(g));
    }
    if part >= 1 {
        // a guid whose packed form has 1 + (part - 1) bytes
        let mut g = 0u64;
        for k in 0..(part - 1) {
            g |= byte(&mut rng) << (8 * k);
        }
        guids.push(wow_world_messages::Guid::new(g));
    }
    AnyMsg::WS(Box::new(SMSG_COMPRESSED_UPDATE_OBJECT { objects: vec![Object::OutOfRangeObjects { guids }] }.into()))
}

/// raw size at which the message's body is about `body` bytes long on this build of the library (measured, not assumed)
pub fn compressed_raw_for_body(body: usize) -> usize {
    let mut raw = body.saturating_sub(40);
    for _ in 0..6 {
        let got = guarded(|| write_plain(&compressed_update_object(raw, 1))).ok().and_then(|r| r.ok()).map(|b| b.len()).unwrap_or(body + 5);
        // total = body + header (4 or 5): aim a little below the requested body, the sweep walks upwards from there
        let want = body + 4;
        if got == want {
            break;
        }
        raw = (raw as i64 + want as i64 - got as i64).max(0) as usize;
    }
    raw
}

/// (raw size, seed) pairs whose messages have pairwise different total wire lengths covering, as densely as this build of
/// the library allows, every length from 0x7FF0 to 0x8010 (the compressed size does not move linearly with the raw size, so
/// candidates are measured: 3 seeds for each of 120 raw sizes)
pub fn compressed_candidates() -> &'static Vec<(usize, u64)> {
    static C: std::sync::OnceLock<Vec<(usize, u64)>> = std::sync::OnceLock::new();
    C.get_or_init(|| {
        let base = compressed_raw_for_body(0x7FFE - 30);
        let mut by_len: std::collections::BTreeMap<usize, (usize, u64)> = std::collections::BTreeMap::new();
        for raw in base..base + 120 {
            for seed in 1..=3u64 {
                if let Ok(Ok(b)) = guarded(|| write_plain(&compressed_update_object(raw, seed))) {
                    if (0x7FF0..=0x8010).contains(&b.len()) {
                        by_len.entry(b.len()).or_insert((raw, seed));
                    }
                }
            }
        }
        let mut v: Vec<(usize, u64)> = by_len.into_values().collect();
        if v.is_empty() {
            v.push((base, 1));
        }
        v
    })
}

/// insert WARDEN_DATA messages of exact body lengths at given positions of the workload
pub fn inject_wardens(wl: &mut Workload, exp: Exp, dir: Dir, sc: &Value) {
    if let Some(a) = sc["compressed_raw"].as_array() {
        for e in a {
            let pos = (e[0].as_u64().unwrap_or(0) as usize).min(wl.msgs.len());
            let raw = e[1].as_u64().unwrap_or(0) as usize;
            wl.msgs.insert(pos, compressed_update_object(raw, e[2].as_u64().unwrap_or(1)));
            wl.names.insert(pos, "SMSG_COMPRESSED_UPDATE_OBJECT".to_string());
            wl.body_lens.insert(pos, raw + 20);
        }
    }
    if let Some(a) = sc["warden"].as_array() {
        for e in a {
            let pos = (e[0].as_u64().unwrap_or(0) as usize).min(wl.msgs.len());
            let len = e[1].as_u64().unwrap_or(0) as usize;
            wl.msgs.insert(pos, warden(exp, dir, len));
            wl.names.insert(pos, warden_name(dir).to_string());
            wl.body_lens.insert(pos, len);
        }
    }
}

pub fn warden_name(dir: Dir) -> &'static str {
    match dir {
        Dir::Client => "CMSG_WARDEN_DATA",
        Dir::Server => "SMSG_WARDEN_DATA",
    }
}

impl C02 {
    pub fn new() -> C02 {
        let ctx = WorldCtx::new();
        let mut sweep = Vec::new();
        for e in Exp::ALL {
            for d in [Dir::Client, Dir::Server] {
                for l in sweep_lengths(e, d) {
                    sweep.push((e, d, l));
                }
                for l in sweep_lengths_256(e, d) {
                    sweep.push((e, d, l));
                }
            }
        }
        let mut per_msg = Vec::new();
        for e in Exp::ALL {
            for d in [Dir::Client, Dir::Server] {
                for k in 0..ctx.model(e).messages_dir(d).len() {
                    per_msg.push((e, d, k));
                }
            }
        }
        C02 { ctx, sweep, per_msg }
    }
}

/// shapes of ONE message chosen greedily so that every branch / enumerator token the model peer can reach within
/// `cands` candidates occurs at least once (at most `keep` frames)
pub fn shape_cover(m: &Model<'static>, exp: Exp, dir: Dir, c: &crate::wowm::Container, rng: &mut Rng, cands: u64, keep: usize) -> (Vec<Value>, Vec<String>, usize) {
    let mut frames = Vec::new();
    let mut names = Vec::new();
    let mut seen_tokens = std::collections::BTreeSet::new();
    let mut seen = std::collections::BTreeSet::new();
    for s in 0..cands {
        if frames.len() >= keep {
            break;
        }
        let knobs = match if s == 2 { 11 } else { s % 6 } {
            11 => Knobs { big_array_one_in: 2, size_budget: 60_000, avoid_cond_flag_branches: 100, ..Knobs::default() },
            0 => Knobs { avoid_cond_flag_branches: 85, ..Knobs::default() },
            1 => Knobs { max_arr: 0, max_str: 0, avoid_cond_flag_branches: 85, ..Knobs::default() },
            2 => Knobs { max_arr: 6, max_str: 40, size_budget: 6000, avoid_cond_flag_branches: 85, ..Knobs::default() },
            3 => Knobs { take_optional: Some(true), avoid_cond_flag_branches: 85, ..Knobs::default() },
            4 => Knobs { take_optional: Some(false), avoid_cond_flag_branches: 100, ..Knobs::default() },
            _ if s % 12 == 11 => Knobs { big_array_one_in: 2, size_budget: 60_000, avoid_cond_flag_branches: 100, ..Knobs::default() },
            _ => Knobs { avoid_cond_flag_branches: 30, ..Knobs::default() },
        };
        let Ok(f) = m.encode(c, rng, &knobs) else { continue };
        if f.wire_body().len() > max_expressible_body(exp, dir) {
            continue;
        }
        if !seen.insert(format!("{}|{}", f.shape, f.plain.len().min(64))) {
            continue;
        }
        let big = knobs.big_array_one_in > 0 && f.plain.len() > 255;
        let adds = f.shape.split(',').any(|t| !seen_tokens.contains(t)) || (big && !seen_tokens.contains("array:255+"));
        if !frames.is_empty() && !adds {
            continue;
        }
        if big {
            seen_tokens.insert("array:255+".to_string());
        }
        for t in f.shape.split(',') {
            seen_tokens.insert(t.to_string());
        }
        frames.push(bytes_to_json(&world_wire(exp, dir, &f)));
        names.push(f.name.clone());
    }
    (frames, names, seen_tokens.len())
}

pub fn max_expressible_body(exp: Exp, dir: Dir) -> usize {
    match (exp, dir) {
        (_, Dir::Client) => 0xFFFF - 4,
        (Exp::Wrath, Dir::Server) => 0x7FFFFF - 2,
        (_, Dir::Server) => 0xFFFF - 2,
    }
}

/// random frames of one (exp, dir) as wire bytes with names
pub fn gen_frames(m: &Model<'static>, exp: Exp, dir: Dir, rng: &mut Rng, n: usize, knobs: &Knobs) -> (Vec<Value>, Vec<String>) {
    let msgs = m.messages_dir(dir);
    let mut frames = Vec::new();
    let mut names = Vec::new();
    let mut guard = 0;
    while frames.len() < n && guard < n * 4 {
        guard += 1;
        let c = *rng.pick(&msgs);
        if let Ok(f) = m.encode(c, rng, knobs) {
            let w = world_wire(exp, dir, &f);
            if f.wire_body().len() <= max_expressible_body(exp, dir) {
                frames.push(bytes_to_json(&w));
                names.push(f.name.clone());
            }
        }
    }
    (frames, names)
}

/// Outcome of decoding model frames into library values (the workload of the session)
pub struct Workload {
    pub msgs: Vec<AnyMsg>,
    pub names: Vec<String>,
    pub rejected: u64,
    pub decode_panics: u64,
    /// names of the messages whose canonical frame the library did not accept (reported in the evidence by name)
    pub rejected_names: Vec<String>,
    /// body length each message is expected to have on the wire (model frame / constructed WARDEN length)
    pub body_lens: Vec<usize>,
}

pub fn decode_workload(exp: Exp, dir: Dir, frames: &[Value], names: &[String]) -> Workload {
    let mut w = Workload { msgs: vec![], names: vec![], rejected: 0, decode_panics: 0, rejected_names: vec![], body_lens: vec![] };
    for (i, f) in frames.iter().enumerate() {
        let bytes = json_to_bytes(f);
        match guarded(|| read_plain(exp, dir, &bytes)) {
            Ok((Ok(m), consumed)) if consumed == bytes.len() => {
                w.msgs.push(m);
                w.names.push(names.get(i).cloned().unwrap_or_default());
                w.body_lens.push(bytes.len().saturating_sub(if dir == Dir::Client { 6 } else if exp == Exp::Wrath && bytes.first().map(|b| b & 0x80 != 0).unwrap_or(false) { 5 } else { 4 }));
            }
            Ok(_) => {
                w.rejected += 1;
                w.rejected_names.push(names.get(i).cloned().unwrap_or_default());
            }
            Err(_) => w.decode_panics += 1,
        }
    }
    w
}

impl Check for C02 {
    fn id(&self) -> &'static str {
        "C02"
    }
    fn level(&self) -> &'static str {
        "exploration"
    }
    fn rule(&self) -> String {
        "Each run is one simulated session: 1-12 world messages (values obtained by decoding model-peer frames; for the length sweep a WARDEN_DATA message of an exact body length followed by a second message) are written with the library's writers (sync/tokio/async-std, short writes, Pending, EINTR) onto one SimPipe stream and read back with the opcode-enum reader or the typed expect helper under a scheduled chunking. Compressed messages are included with large incompressible payloads (their writers are overridden). After a successful read a typed helper is also asked for the WRONG type: it must return an opcode error and still consume exactly the announced bytes. Every enumerated run and a quarter of the sampled sessions are repeated through the encrypting writers and decrypting readers (fixed key, real wow_srp halves; violations of that pass carry the prefix 'encrypted:'). Enumerated part: (a) for EVERY world message one session made of up to 6 shapes of that message, chosen greedily out of 48 model-peer candidates so that every branch / enumerator the model reaches occurs at least once; (c) a Wrath SMSG_COMPRESSED_UPDATE_OBJECT (overridden writers) at every total length from 0x7FF0 to 0x8010 that measured candidates reach, across the 2/3-byte header boundary; (b) every multiple of 256 up to 0xFF00 with its two neighbours and every body length in 0..16, 0x7FF0..0x8010, 0xFFE8..0x10010 (and a few more) x 3 expansions x 2 directions, as far as the header form can express it. A run is non-trivial when at least one message was written and read and a chunk boundary, Pending or EINTR fell strictly inside a message; distinct = distinct event-log hashes (every transport call, every oracle verdict).".into()
    }
    fn assumptions(&self) -> Vec<String> {
        vec![
            "model peer (independent wowm reading) produces canonical frames; frames the library rejects are not used as traffic and are counted".into(),
            "header oracle is the model's own header decoder written from implementing_world.md".into(),
            "wow_srp, flate2, tokio/futures read_exact/write_all are trusted real code".into(),
        ]
    }
    fn components(&self) -> Value {
        json!({"real": ["wow_world_messages (working tree; sync+tokio+async-std; vanilla+tbc+wrath)", "wow_world_base", "flate2", "tokio::io::AsyncReadExt/AsyncWriteExt", "async_std::io::ReadExt/WriteExt"],
               "simulated": ["transport (SimPipe: chunking, Pending, Interrupted, EOF)", "executor/waker", "peer application (model peer frames)"],
               "not_exercised": ["real sockets", "async cancellation"]})
    }
    fn plan(&self, tier: Tier) -> (u64, u64) {
        let reps = match tier {
            Tier::Quick => 1,
            Tier::Thorough => 4,
        };
        (self.sweep.len() as u64 * reps + self.per_msg.len() as u64 * reps + COMPRESSED_SWEEP, match tier {
            Tier::Quick => env_u64("VERIF_C02_RUNS", 60_000),
            Tier::Thorough => env_u64("VERIF_C02_RUNS", 3_000_000),
        })
    }
    fn gen(&self, i: u64, seed: u64, tier: Tier) -> Value {
        let mut rng = Rng::new(seed);
        let (n_enum, _) = self.plan(tier);
        let mut wl = rng.fork("workload");
        let mut sr = rng.fork("schedule");
        let mut cf = rng.fork("config");
        let n_sweep = self.sweep.len() as u64 * match tier {
            Tier::Quick => 1,
            Tier::Thorough => 4,
        };
        if i < n_sweep {
            let (exp, dir, len) = self.sweep[(i % self.sweep.len() as u64) as usize];
            let rep = i / self.sweep.len() as u64;
            let m = self.ctx.model(exp);
            let (frames, names) = gen_frames(m, exp, dir, &mut wl, 1, &Knobs::default());
            let total = len + 16;
            let (wfl, rfl, entry) = if rep == 0 {
                // canonical first repetition: sync whole-buffer, both entry points alternate by parity of len
                (Flavour::Sync, Flavour::Sync, if len % 2 == 0 && !(len > 0 && len % 256 == 0) { "enum" } else { "expect" })
            } else {
                (pick_flavour(&mut cf), pick_flavour(&mut cf), if cf.chance(1, 2) { "enum" } else { "expect" })
            };
            let (ws, rs) = if rep == 0 { (Schedule::whole(), Schedule::whole()) } else { (Schedule::random(&mut sr, total, wfl == Flavour::Sync), Schedule::random(&mut sr, total, rfl == Flavour::Sync)) };
            // every fourth length asks the typed helper for ANOTHER type when the swept message arrives (it must refuse it and
            // still consume exactly its bytes)
            let wrong: Vec<Value> = if entry == "expect" && ((len / 2) % 2 == 0 || (len > 0 && len % 256 == 0)) {
                let other = type_names(exp, dir).iter().find(|n| **n != warden_name(dir)).copied().unwrap_or("");
                vec![json!([0, other])]
            } else {
                vec![]
            };
            return json!({"kind": "sweep", "label": format!("{}:{}:{}:len={:#x}", exp.name(), dir.name(), warden_name(dir), len),
                "exp": exp.name(), "dir": dir.name(), "warden": [[0, len]], "frames": frames, "names": names, "wrong_expect": wrong,
                "wflavour": wfl.name(), "rflavour": rfl.name(), "rentry": entry, "wsched": sched_json(&ws), "rsched": sched_json(&rs), "encrypted_too": true});
        }
        if i < n_enum && i >= n_enum - COMPRESSED_SWEEP {
            // Wrath compressed server messages of every size around the 2/3-byte header boundary: the raw size walks upwards
            // byte by byte from a little below the boundary (measured on this build), so the compressed body takes every
            // value across it; followed by a small message
            let e = i - (n_enum - COMPRESSED_SWEEP);
            let (raw, rseed) = compressed_candidates()[(e as usize) % compressed_candidates().len().max(1)];
            let m = self.ctx.model(Exp::Wrath);
            let (frames, names) = gen_frames(m, Exp::Wrath, Dir::Server, &mut wl, 1, &Knobs { avoid_cond_flag_branches: 100, ..Knobs::default() });
            let fl = [Flavour::Sync, Flavour::Tokio, Flavour::Astd][(e % 3) as usize];
            return json!({"kind": "compressed-sweep", "label": format!("wrath:server:SMSG_COMPRESSED_UPDATE_OBJECT:raw={}", raw),
                "exp": "wrath", "dir": "server", "frames": frames, "names": names, "wrong_expect": [], "warden": [], "compressed_raw": [[0, raw, rseed]],
                "wflavour": fl.name(), "rflavour": "sync", "rentry": if e % 2 == 0 { "enum" } else { "expect" }, "wsched": sched_json(&Schedule::whole()), "rsched": sched_json(&Schedule::whole()), "encrypted_too": true});
        }
        if i < n_enum {
            // per-message shape coverage: one session made of the shapes of ONE message that together cover every
            // branch / enumerator the model peer reaches, followed by nothing else (the next read must hit EOF exactly)
            let j = i - n_sweep;
            let (exp, dir, k) = self.per_msg[(j % self.per_msg.len() as u64) as usize];
            let m = self.ctx.model(exp);
            let c = m.messages_dir(dir)[k];
            let (frames, names, tokens) = shape_cover(m, exp, dir, c, &mut wl, 48, 6);
            let total: usize = frames.iter().map(|f| json_to_bytes(f).len()).sum();
            let wfl = pick_flavour(&mut cf);
            let rfl = pick_flavour(&mut cf);
            let entry = if j % 2 == 0 { "enum" } else { "expect" };
            let ws = if cf.chance(1, 2) { Schedule::whole() } else { Schedule::random(&mut sr, total, wfl == Flavour::Sync) };
            let rs = if cf.chance(1, 3) { Schedule::whole() } else { Schedule::random(&mut sr, total, rfl == Flavour::Sync) };
            return json!({"kind": "per-message", "label": format!("{}:{}:{}:shapes={}", exp.name(), dir.name(), c.name, frames.len()), "tokens": tokens,
                "exp": exp.name(), "dir": dir.name(), "frames": frames, "names": names, "wrong_expect": [], "warden": [],
                "wflavour": wfl.name(), "rflavour": rfl.name(), "rentry": entry, "wsched": sched_json(&ws), "rsched": sched_json(&rs), "encrypted_too": j % 3 == 0});
        }
        let exp = *cf.pick(&Exp::ALL);
        let dir = if cf.chance(1, 2) { Dir::Client } else { Dir::Server };
        let m = self.ctx.model(exp);
        let nmax = match cf.below(4) {
            0 => 1,
            1 => 3,
            _ => 12,
        };
        let n = 1 + cf.below(nmax) as usize;
        let mut knobs = Knobs { avoid_cond_flag_branches: 85, ..Knobs::default() };
        match cf.below(8) {
            0 => {
                knobs.max_arr = 0;
                knobs.max_str = 0;
            }
            1 => {
                knobs.max_arr = 12;
                knobs.max_str = 60;
                knobs.size_budget = 9000;
            }
            2 => {
                knobs.max_arr = 40;
                knobs.size_budget = 40_000;
            }
            _ => {}
        }
        let (mut frames, mut names) = gen_frames(m, exp, dir, &mut wl, n, &knobs);
        if cf.chance(1, 10) {
            if let Some((f, nm)) = self.ctx.big_compressed_frame(exp, dir, &mut wl) {
                let pos = cf.below(frames.len() as u64 + 1) as usize;
                frames.insert(pos, f);
                names.insert(pos, nm);
            }
        }
        // WARDEN_DATA bodies around the header-form boundaries also inside ordinary sessions
        let mut warden = Vec::new();
        if cf.chance(1, 6) {
            let len = match (exp, dir) {
                (Exp::Wrath, Dir::Server) => 0x7FF6 + cf.below(16) as usize,
                (_, Dir::Client) => *cf.pick(&[0usize, 1, 0x7FFF, 0x8000, 0xFFF0, 0xFFF9]),
                _ => *cf.pick(&[0usize, 1, 0x7FFF, 0x8000, 0xFFF0, 0xFFFB]),
            };
            warden.push(json!([cf.below(frames.len() as u64 + 1), len]));
        }
        let total: usize = frames.iter().map(|f| json_to_bytes(f).len()).sum();
        let wfl = pick_flavour(&mut cf);
        let rfl = pick_flavour(&mut cf);
        let entry = if cf.chance(1, 2) { "enum" } else { "expect" };
        let ws = if cf.chance(1, 3) { Schedule::whole() } else { Schedule::random(&mut sr, total, wfl == Flavour::Sync) };
        let rs = if cf.chance(1, 5) { Schedule::whole() } else { Schedule::random(&mut sr, total, rfl == Flavour::Sync) };
        // sometimes the typed helper is asked for a type other than the one that arrives
        let wrong: Vec<Value> = if entry == "expect" && cf.chance(1, 4) && !names.is_empty() {
            let k = cf.below(names.len() as u64);
            let other = type_names(exp, dir);
            vec![json!([k, *cf.pick(other)])]
        } else {
            vec![]
        };
        let encrypted_too = cf.chance(1, 4);
        json!({"kind": "session", "label": format!("{}:{}:{}", exp.name(), dir.name(), names.join("+")),
            "exp": exp.name(), "dir": dir.name(), "frames": frames, "names": names, "wrong_expect": wrong, "warden": warden,
            "wflavour": wfl.name(), "rflavour": rfl.name(), "rentry": entry, "wsched": sched_json(&ws), "rsched": sched_json(&rs), "encrypted_too": encrypted_too})
    }

    fn exec(&self, sc: &Value) -> Outcome {
        let mut o = Outcome::default();
        let exp = exp_of(&sc["exp"]);
        let dir = dir_of(&sc["dir"]);
        let frames: Vec<Value> = sc["frames"].as_array().cloned().unwrap_or_default();
        let names: Vec<String> = sc["names"].as_array().map(|a| a.iter().map(|x| x.as_str().unwrap_or("").to_string()).collect()).unwrap_or_default();
        let mut wl = decode_workload(exp, dir, &frames, &names);
        o.count("model_frames", frames.len() as u64);
        o.count("model_frames_rejected", wl.rejected);
        o.count("model_frames_decode_panic", wl.decode_panics);
        for n in &wl.rejected_names {
            o.count(&format!("model_frame_rejected:{}:{}:{}", exp.name(), dir.name(), n), 1);
        }
        inject_wardens(&mut wl, exp, dir, sc);
        if sc["kind"] == "sweep" {
            o.count("sweep_runs", 1);
        }
        if sc["kind"] == "per-message" {
            o.count("per_message_runs", 1);
            o.count("per_message_shape_tokens", sc["tokens"].as_u64().unwrap_or(0));
            o.count("per_message_frames", frames.len() as u64);
        }
        if wl.msgs.is_empty() {
            return o;
        }
        run_session(&mut o, exp, dir, &wl, sc, None);
        // "... and their encrypted variants": the same session once more through the encrypting writers and the
        // decrypting readers (fixed key; C05 varies keys and judges the ciphertext itself)
        if sc["encrypted_too"] == true && o.violations.is_empty() {
            let mut e = Outcome::default();
            run_session(&mut e, exp, dir, &wl, sc, Some([0x5Au8; 40]));
            for (k, v) in e.counters.iter() {
                o.count(&format!("encrypted_pass_{}", k), *v);
            }
            o.count("encrypted_pass_runs", 1);
            o.violations.extend(e.violations.into_iter().map(|mut v| {
                v.sig = format!("encrypted:{}", v.sig);
                v
            }));
            o.log_hash ^= e.log_hash.rotate_left(17);
            o.bytes += e.bytes;
        }
        o
    }

    fn shrink(&self, sc: &Value) -> Vec<Value> {
        shrink_session(sc)
    }
    fn restrict(&self, sc: &Value, other: &Value) -> Option<Value> {
        restrict_session(sc, other)
    }
}

/// keep only the frames / wardens that also occur in `other` (a previously minimised scenario)
pub fn restrict_session(sc: &Value, other: &Value) -> Option<Value> {
    if sc["exp"] != other["exp"] || sc["dir"] != other["dir"] {
        return None;
    }
    let keep: Vec<&str> = other["names"].as_array()?.iter().filter_map(|x| x.as_str()).collect();
    let frames = sc["frames"].as_array()?;
    let names = sc["names"].as_array()?;
    let mut f2 = Vec::new();
    let mut n2 = Vec::new();
    for (f, n) in frames.iter().zip(names.iter()) {
        if keep.contains(&n.as_str().unwrap_or("")) {
            f2.push(f.clone());
            n2.push(n.clone());
        }
    }
    let other_has_warden = other["warden"].as_array().map(|a| !a.is_empty()).unwrap_or(false);
    if f2.len() == frames.len() && (other_has_warden || sc["warden"].as_array().map(|a| a.is_empty()).unwrap_or(true)) {
        return None;
    }
    if f2.is_empty() && !other_has_warden {
        return None;
    }
    let mut s = sc.clone();
    if s["kind"] == "session" {
        s["label"] = Value::String(format!("{}:{}:{}", s["exp"].as_str().unwrap_or(""), s["dir"].as_str().unwrap_or(""), n2.iter().map(|x| x.as_str().unwrap_or("")).collect::<Vec<_>>().join("+")));
    }
    s["frames"] = Value::Array(f2);
    s["names"] = Value::Array(n2);
    if !other_has_warden && sc["kind"] != "sweep" {
        s["warden"] = json!([]);
    }
    Some(s)
}

pub fn shrink_session(sc: &Value) -> Vec<Value> {
    let mut out = Vec::new();
    let frames = sc["frames"].as_array().cloned().unwrap_or_default();
    let names = sc["names"].as_array().cloned().unwrap_or_default();
    // drop frames
    if frames.len() > 1 {
        for i in 0..frames.len() {
            let mut s = sc.clone();
            let mut f = frames.clone();
            let mut n = names.clone();
            f.remove(i);
            if i < n.len() {
                n.remove(i);
            }
            let label = format!("{}:{}:{}", s["exp"].as_str().unwrap_or(""), s["dir"].as_str().unwrap_or(""), n.iter().map(|x| x.as_str().unwrap_or("")).collect::<Vec<_>>().join("+"));
            if s["kind"] == "session" {
                s["label"] = Value::String(label);
            }
            s["frames"] = Value::Array(f);
            s["names"] = Value::Array(n);
            out.push(s);
        }
    } else if frames.len() == 1 && sc["warden"].as_array().map(|a| !a.is_empty()).unwrap_or(false) {
        let mut s = sc.clone();
        s["frames"] = json!([]);
        s["names"] = json!([]);
        out.push(s);
    }
    if let Some(w) = sc["warden"].as_array() {
        if sc["kind"] != "sweep" {
            for i in 0..w.len() {
                let mut s = sc.clone();
                let mut ww = w.clone();
                ww.remove(i);
                s["warden"] = Value::Array(ww);
                out.push(s);
            }
        }
    }
    for key in ["wsched", "rsched"] {
        for t in shrink_sched(&sched_of(&sc[key])) {
            let mut s = sc.clone();
            s[key] = sched_json(&t);
            out.push(s);
        }
    }
    for key in ["wflavour", "rflavour"] {
        if sc[key] != "sync" {
            let mut s = sc.clone();
            s[key] = json!("sync");
            out.push(s);
        }
    }
    if sc["rentry"] == "expect" {
        let mut s = sc.clone();
        s["rentry"] = json!("enum");
        out.push(s);
    }
    out
}

fn budget_for(bytes: usize, sched: &Schedule) -> u64 {
    let pend: u64 = sched.steps.iter().map(|s| if let crate::pipe::Step::Pending(k) = s { *k as u64 } else { 0 }).sum();
    8 * bytes as u64 + 4 * pend + (sched.tail_pending as u64 + 1) * (bytes as u64 + 8) + 64
}

/// the session engine shared by C02 (plain) and C05 (encrypted when `key` is given)
pub fn run_session(o: &mut Outcome, exp: Exp, dir: Dir, wl: &Workload, sc: &Value, key: Option<[u8; 40]>) {
    let wfl = flavour_of(&sc["wflavour"]);
    let rfl = flavour_of(&sc["rflavour"]);
    let ws = sched_of(&sc["wsched"]);
    let rs = sched_of(&sc["rsched"]);
    let entry_expect = sc["rentry"] == "expect";
    let c05 = key.is_some();
    let mut log = Fnv::new();
    let mut crypto = key.map(|k| session_crypto(exp, k));
    // ---- write all messages onto one stream
    let mut w = SimWriter::new(&ws);
    let mut shadow: Vec<u8> = Vec::new(); // plaintext stream (for the encrypted case)
    let mut bounds = Vec::new();
    let mut written: Vec<usize> = Vec::new(); // indices into wl.msgs that made it onto the stream
    let mut write_failed = false;
    for (i, m) in wl.msgs.iter().enumerate() {
        let before = w.data.len();
        let enc = match (&mut crypto, dir) {
            (Some(c), Dir::Client) => Some(&mut c.client_enc),
            (Some(c), Dir::Server) => Some(&mut c.server_enc),
            _ => None,
        };
        let encrypted = enc.is_some();
        let r = guarded(|| write_enum(m, wfl, enc, &mut w, 1 << 40));
        match r {
            Err((msg, loc)) => {
                if c05 && guarded(|| write_plain(m)).map(|r| r.is_err()).unwrap_or(true) {
                    // the plain writer fails on this value too: C02's domain, not a cipher property
                    o.count("skipped_plain_writer_fails_too", 1);
                } else {
                    // size/bytes mismatches are attributed: does the value use an else-if flag group (known defect) or not
                    let tag = if msg.contains("left == right") {
                        if has_elseif_group(&m.debug()) { ":conditional-flag-branch".to_string() } else { format!(":{}", wl.names[i]) }
                    } else {
                        String::new()
                    };
                    // an arithmetic overflow while writing a body within a few bytes of the largest the header can express is
                    // identified by that input class, not by the place in the source where the size happens to be added up
                    let near_max = wl.body_lens.get(i).map(|l| l + 8 >= max_expressible_body(exp, dir) && *l <= max_expressible_body(exp, dir)).unwrap_or(false);
                    let sig = if msg.contains("with overflow") && near_max {
                        format!("writer-abort:size-arithmetic-overflow-near-largest-body:{}:{}{}", exp.name(), dir.name(), if c05 { ":encrypted-only" } else { "" })
                    } else {
                        format!("{}:{}:{}{}{}", panic_sig(&msg, &loc), exp.name(), dir.name(), tag, if c05 { ":encrypted-only" } else { "" })
                    };
                    o.violate("writer_abort", sig, format!("writing {} ({} body bytes) panicked: '{}' at {}", wl.names[i], wl.body_lens.get(i).copied().unwrap_or(0), msg, loc));
                }
                log.str("wpanic");
                write_failed = true;
                // the stream is unusable after a failed write (cipher state, partial bytes): stop the session here
                w.data.truncate(before);
                break;
            }
            Ok(wo) => {
                if let Err(e) = wo.result {
                    // the compressed writers refuse sizes their header cannot carry; that is only acceptable for large messages
                    let model_len = sc["frames"].as_array().and_then(|a| a.iter().map(|f| json_to_bytes(f).len()).max()).unwrap_or(0);
                    if e == "InvalidInput" && model_len > 0xF000 {
                        o.count("writer_refused_too_large_not_judged", 1);
                        if w.data.len() == before {
                            // a clean refusal: nothing was written, so the caller may go on with the next message and the
                            // session (cipher states included) must be as if the refused message had never been offered
                            o.count("probe_session_continues_after_refused_message", 1);
                            continue;
                        }
                    } else {
                        o.violate("writer_error", format!("write-error:{}:{}", e, wl.names[i]), format!("writer returned error {} on an in-memory pipe", e));
                    }
                    w.data.truncate(before);
                    write_failed = true;
                    break;
                }
                if wo.budget_exceeded {
                    o.violate("bounded_liveness", format!("write-stall:{}", wfl.name()), "writer did not complete within the step budget".into());
                    break;
                }
                o.ticks += wo.polls;
            }
        }
        if encrypted {
            // plaintext shadow of the same value
            match guarded(|| write_plain(m)) {
                Ok(Ok(p)) => shadow.extend_from_slice(&p),
                _ => {
                    // nothing to compare the ciphertext with: C02's domain
                    o.count("skipped_plain_writer_fails", 1);
                    write_failed = true;
                    w.data.truncate(before);
                    break;
                }
            }
        }
        // a message whose body the header form cannot express: nothing is required of it (and nothing after it on this stream)
        let hl = match dir {
            Dir::Client => 6,
            Dir::Server => 4,
        };
        if w.data.len() - before > max_expressible_body(exp, dir) + hl {
            o.count("beyond_expressible_not_judged", 1);
            w.data.truncate(before);
            if encrypted {
                shadow.truncate(shadow.len() - (shadow.len() - before.min(shadow.len())));
            }
            write_failed = true;
            break;
        }
        bounds.push(w.data.len());
        written.push(i);
        log.u64(w.data.len() as u64);
    }
    o.count("messages_written", written.len() as u64);
    o.count("write_short_chunks", w.stats.chunks.saturating_sub(written.len() as u64));
    o.count("write_pendings", w.stats.pendings);
    o.count("write_interrupts", w.stats.interrupts);
    log.u64(w.log.0);
    let stream = std::mem::take(&mut w.data);
    o.bytes += stream.len() as u64;
    // ---- header truth on the plaintext view of the stream
    let plain_stream: &[u8] = if key.is_some() { &shadow } else { &stream };
    if key.is_some() {
        if shadow.len() != stream.len() {
            o.violate("cipher_transparent", "enc-len-differs".into(), format!("ciphertext stream has {} bytes, plaintext stream {}", stream.len(), shadow.len()));
        }
    }
    let mut pos = 0usize;
    let mut header_ranges: Vec<(usize, usize)> = Vec::new();
    for (k, &i) in written.iter().enumerate() {
        let end = bounds[k];
        if end > plain_stream.len() || pos > end {
            break;
        }
        let msg = &plain_stream[pos..end];
        match parse_world_header(exp, dir, msg) {
            None => {
                if !c05 {
                    o.violate("header_truth", format!("short-message:{}", wl.names[i]), format!("message {} occupies {} bytes, less than a header", wl.names[i], msg.len()));
                }
            }
            Some(h) => {
                header_ranges.push((pos, pos + h.header_len));
                let follows = msg.len() - h.size_len;
                if c05 {
                    pos = end;
                    continue;
                }
                if h.size_field != follows {
                    o.violate("header_truth", format!("size-field:{}:{}:{}", exp.name(), dir.name(), wl.names[i]), format!("{}: size field says {} but {} bytes follow the size field", wl.names[i], h.size_field, follows));
                }
                let large_needed = exp == Exp::Wrath && dir == Dir::Server && follows > 0x7FFF;
                if (h.size_len == 3) != large_needed {
                    o.violate("header_truth", format!("header-form:{}:{}", exp.name(), dir.name()), format!("{}: {}-byte size form used for a size value of {}", wl.names[i], h.size_len, follows));
                }
                if h.size_len == 3 {
                    o.count("probe_large_header_written", 1);
                }
                // opcode must be the opcode the model knows for this message name
                if let Some(c) = crate::c02::model_opcode(&wl.names[i], exp) {
                    if c != h.opcode {
                        o.violate("header_truth", format!("opcode:{}", wl.names[i]), format!("{}: header carries opcode {:#x}, definition says {:#x}", wl.names[i], h.opcode, c));
                    }
                }
            }
        }
        pos = end;
    }
    if key.is_some() && shadow.len() == stream.len() {
        // ciphertext may differ from plaintext only inside header positions
        let mut in_header = vec![false; stream.len()];
        for (a, b) in &header_ranges {
            for x in in_header.iter_mut().take(*b).skip(*a) {
                *x = true;
            }
        }
        if let Some(d) = (0..stream.len()).find(|&j| stream[j] != shadow[j] && !in_header[j]) {
            o.violate("cipher_transparent", format!("body-differs:{}:{}", exp.name(), dir.name()), format!("ciphertext differs from plaintext at stream offset {} which is not a header byte", d));
        }
        // independent decryption of the header bytes
        if let Some(k2) = key {
            let mut c2 = session_crypto(exp, k2);
            let dec = match dir {
                Dir::Client => &mut c2.server_dec,
                Dir::Server => &mut c2.client_dec,
            };
            for (a, b) in &header_ranges {
                let mut hb = stream[*a..*b].to_vec();
                dec.decrypt(&mut hb);
                if hb != shadow[*a..*b] {
                    o.violate("cipher_transparent", format!("header-decrypt:{}:{}", exp.name(), dir.name()), format!("independently decrypted header at {} is {:02x?}, plaintext header is {:02x?}", a, hb, &shadow[*a..*b]));
                    break;
                }
            }
        }
    }
    // ---- read everything back
    let mut r = SimReader::new(&stream, &rs);
    let budget = budget_for(stream.len(), &rs);
    let mut in_step = true;
    let whole = Schedule::whole();
    let mut pr = SimReader::new(&shadow, &whole);
    for (k, &i) in written.iter().enumerate() {
        let dec = match (&mut crypto, dir) {
            (Some(c), Dir::Client) => Some(&mut c.server_dec),
            (Some(c), Dir::Server) => Some(&mut c.client_dec),
            _ => None,
        };
        let name = &wl.names[i];
        // the typed helper may be asked for another type than the one on the wire (scenario "wrong_expect": [[position in the original frame list, type name]])
        let wrong_name: Option<String> = sc["wrong_expect"].as_array().and_then(|a| a.iter().find(|e| e[0].as_u64() == Some(i as u64) && e[1].as_str() != Some(name.as_str())).and_then(|e| e[1].as_str().map(|s| s.to_string())));
        let ask = wrong_name.clone().unwrap_or_else(|| name.clone());
        let ask = &ask;
        let got = guarded(|| {
            if entry_expect {
                match read_expect(exp, dir, ask, rfl, dec, &mut r, budget) {
                    Some((ro, honoured)) => (ro, honoured),
                    None => (ReadOut { result: Err(ErrSig { outer: "HARNESS".into(), kind: "unknown-type".into(), detail: name.clone() }), polls: 0, budget_exceeded: false }, false),
                }
            } else {
                (read_enum(exp, dir, rfl, dec, &mut r, budget), true)
            }
        });
        let entry_name = if entry_expect { "expect" } else { "enum" };
        if c05 {
            // reference: the plain reader (same entry point, blocking, whole buffer) on the plaintext stream
            let name2 = name.clone();
            let name2 = wrong_name.clone().unwrap_or(name2);
            let refr = guarded(|| {
                if entry_expect {
                    read_expect(exp, dir, &name2, Flavour::Sync, None, &mut pr, budget).map(|x| x.0.result)
                } else {
                    Some(read_enum(exp, dir, Flavour::Sync, None, &mut pr, budget).result)
                }
            });
            let pc = pr.consumed();
            let verdict: Result<(), String> = match (&got, &refr) {
                (Err((m1, l1)), Err((m2, l2))) => {
                    if panic_sig(m1, l1) == panic_sig(m2, l2) {
                        Ok(())
                    } else {
                        Err(format!("decrypting reader panics '{}' at {}, plain reader panics '{}' at {}", m1, l1, m2, l2))
                    }
                }
                (Err((m1, l1)), Ok(_)) => Err(format!("decrypting reader panics ('{}' at {}) where the plain reader returns", m1, l1)),
                (Ok(_), Err((m2, l2))) => Err(format!("plain reader panics ('{}' at {}) where the decrypting reader returns", m2, l2)),
                (Ok((ro, _)), Ok(rp)) => {
                    if ro.budget_exceeded {
                        Err("decrypting reader did not complete within the step budget".into())
                    } else {
                        match (&ro.result, rp) {
                            (_, None) => Ok(()),
                            (Ok(a), Some(Ok(b))) => {
                                if !a.same(b) {
                                    Err(format!("decrypting reader returns a different {} than the plain reader", name))
                                } else if r.consumed() != pc {
                                    Err(format!("decrypting reader consumed {} bytes, plain reader {}", r.consumed(), pc))
                                } else {
                                    Ok(())
                                }
                            }
                            (Err(a), Some(Err(b))) => {
                                if a == b && r.consumed() == pc {
                                    Ok(())
                                } else {
                                    Err(format!("decrypting reader: {} after {} bytes, plain reader: {} after {} bytes", a.short(), r.consumed(), b.short(), pc))
                                }
                            }
                            (Ok(_), Some(Err(b))) => Err(format!("decrypting reader returns a message, plain reader fails with {}", b.short())),
                            (Err(a), Some(Ok(_))) => Err(format!("decrypting reader fails with {}, plain reader returns the message", a.short())),
                        }
                    }
                }
            };
            let body_len = bounds[k] - if k == 0 { 0 } else { bounds[k - 1] };
            let lenclass = if body_len > 0x8000 { "large" } else { "small" };
            if let Ok((ro, _)) = &got {
                o.ticks += ro.polls;
            }
            match verdict {
                Err(d) => {
                    let comp = if name.contains("COMPRESSED") { name.as_str() } else { "" };
                    o.violate("enc_vs_plain", format!("enc-vs-plain:{}:{}:{}:{}:{}:pos{}", exp.name(), dir.name(), entry_name, lenclass, comp, if k == 0 { "0" } else { "N" }), format!("message #{} ({}, {} bytes): {}", k, name, body_len, d));
                    in_step = false;
                    break;
                }
                Ok(()) => {
                    let good = (matches!(&got, Ok((ro, _)) if matches!(&ro.result, Ok(m) if m.same(&wl.msgs[i]))) || (wrong_name.is_some() && matches!(&got, Ok((ro, _)) if matches!(&ro.result, Err(e) if e.outer == "Opcode")))) && r.consumed() == bounds[k];
                    if !good {
                        // both readers agree but not on the written value: C02's domain; the stream is desynchronised, stop
                        o.count("skipped_plain_reader_disagrees_with_writer", 1);
                        in_step = false;
                        break;
                    }
                    o.count("messages_read_back", 1);
                    if k > 0 {
                        o.count("probe_second_or_later_message_read", 1);
                    }
                    if lenclass == "large" {
                        o.count("probe_large_message_decrypted", 1);
                    }
                    if body_len >= 0x10000 {
                        o.count("probe_message_of_64KiB_or_more_read_back", 1);
                    }
                    if sc["kind"] == "compressed-sweep" && name.contains("COMPRESSED") {
                        // wire length of the message incl. header: 0x8001/0x8002 are the last 4-byte-header and the first 5-byte-header message
                        if (0x7FFC..=0x8008).contains(&body_len) {
                            o.count(&format!("probe_compressed_message_wire_len_{:#x}", body_len), 1);
                        }
                    }
                    continue;
                }
            }
        }
        match got {
            Err((msg, loc)) => {
                o.violate("reader_abort", format!("{}:{}:{}", panic_sig(&msg, &loc), exp.name(), dir.name()), format!("reading back {} panicked: '{}' at {}", name, msg, loc));
                in_step = false;
                break;
            }
            Ok((ro, _honoured)) => {
                o.ticks += ro.polls;
                if ro.budget_exceeded {
                    o.violate("bounded_liveness", format!("read-stall:{}:{}", rfl.name(), entry_name), format!("reader ({}) did not complete {} within {} polls although all bytes were delivered", rfl.name(), name, budget));
                    in_step = false;
                    break;
                }
                let consumed = r.consumed();
                log.u64(consumed as u64);
                let body_len = bounds[k] - if k == 0 { 0 } else { bounds[k - 1] };
                if entry_expect && wrong_name.is_some() {
                    // the helper must refuse with an opcode error naming what arrived, and still consume exactly this message
                    let want = model_opcode(name, exp).map(|x| x.to_string());
                    match &ro.result {
                        Err(e) if e.outer == "Opcode" && Some(e.detail.clone()) == want && consumed == bounds[k] => {
                            o.count("probe_wrong_expectation_refused_and_aligned", 1);
                            continue;
                        }
                        Err(e) if e.outer == "HARNESS" => {
                            o.count("expect_type_unknown", 1);
                            in_step = false;
                            break;
                        }
                        other => {
                            o.violate("alignment", format!("wrong-expectation:{}:{}:{}", exp.name(), dir.name(), rfl.name()), format!("expecting {} while {} arrives: got {:?} after {} bytes (message ends at {}), wanted an opcode error reporting {:?} and exact consumption", ask, name, other.as_ref().map(|m| m.name()).map_err(|e| e.short()), consumed, bounds[k], want));
                            in_step = false;
                            break;
                        }
                    }
                }
                match ro.result {
                    Err(e) if e.outer == "HARNESS" => {
                        o.count("expect_type_unknown", 1);
                        in_step = false;
                        break;
                    }
                    Err(e) => {
                        // reading back what the library itself wrote must succeed
                        let lenclass = if body_len > 0x8000 { "large" } else { "small" };
                        o.violate("sequence_equal", format!("readback-error:{}:{}:{}:{}:{}:{}", exp.name(), dir.name(), entry_name, e.short(), lenclass, if lenclass == "small" { name.as_str() } else { "" }), format!("message #{} ({}, {} bytes on the wire) written by the library is not read back by the {} reader ({}): {}", k, name, body_len, entry_name, rfl.name(), e.short()));
                        log.str(&e.short());
                        if consumed != bounds[k] {
                            o.violate("alignment", format!("misaligned-after-error:{}:{}:{}:{}", exp.name(), dir.name(), entry_name, lenclass), format!("after the failed read of {} the reader consumed {} bytes, message ends at {}", name, consumed, bounds[k]));
                        }
                        // later messages of this session are not judged: the first failure is the finding
                        in_step = false;
                        break;
                    }
                    Ok(m) => {
                        if consumed != bounds[k] {
                            o.violate("alignment", format!("misaligned:{}:{}:{}", exp.name(), dir.name(), entry_name), format!("after reading {} the reader consumed {} bytes, message ends at {}", name, consumed, bounds[k]));
                        }
                        if !m.same(&wl.msgs[i]) {
                            o.violate("sequence_equal", format!("value-differs:{}:{}:{}:{}", exp.name(), dir.name(), entry_name, name), format!("message #{} ({}, {} bytes on the wire) read back differs from the value written", k, name, body_len));
                        }
                        if !o.violations.is_empty() {
                            in_step = false;
                            break;
                        }
                        o.count("messages_read_back", 1);
                        if k > 0 {
                            o.count("probe_second_or_later_message_read", 1);
                        }
                    }
                }
            }
        }
    }
    // after the sequence, the stream must be exactly exhausted
    if in_step && r.consumed() != stream.len() {
        o.violate("alignment", format!("tail:{}:{}", exp.name(), dir.name()), format!("{} of {} stream bytes consumed after the last message", r.consumed(), stream.len()));
    }
    // C05: both cipher states in step: one more probe header
    if let (Some(c), true) = (&mut crypto, in_step && !write_failed) {
        let (e, d) = match dir {
            Dir::Client => (&mut c.client_enc, &mut c.server_dec),
            Dir::Server => (&mut c.server_enc, &mut c.client_dec),
        };
        let mut probe = [0x11u8, 0x22, 0x33, 0x44, 0x55, 0x66];
        e.encrypt(&mut probe);
        d.decrypt(&mut probe);
        if probe != [0x11u8, 0x22, 0x33, 0x44, 0x55, 0x66] {
            o.violate("cipher_in_step", format!("cipher-desync:{}:{}:{}", exp.name(), dir.name(), if entry_expect { "expect" } else { "enum" }), "after the sequence the writer's encrypter and the reader's decrypter are out of step".into());
        }
    }
    o.count("read_chunks", r.stats.chunks);
    o.count("read_pendings", r.stats.pendings);
    o.count("read_interrupts", r.stats.interrupts);
    o.count(&format!("entry_{}_{}", if entry_expect { "expect" } else { "enum" }, rfl.name()), 1);
    o.count(&format!("writer_{}", wfl.name()), 1);
    o.count(&format!("exp_{}_{}", exp.name(), dir.name()), 1);
    // probes: a delivery boundary strictly inside a header / at header-body border
    let mut inside = false;
    let mut start = 0usize;
    for (k, end) in bounds.iter().enumerate() {
        let hl = header_ranges.get(k).map(|x| x.1 - x.0).unwrap_or(0);
        for b in r.boundaries.iter().chain(r.pending_at.iter()) {
            if *b > start && *b < *end {
                inside = true;
                if *b < start + hl {
                    o.count("probe_split_inside_header", 1);
                    if hl == 5 && *b == start + 4 {
                        o.count("probe_split_before_5th_header_byte", 1);
                    }
                } else if *b == start + hl {
                    o.count("probe_split_between_header_and_body", 1);
                }
            }
        }
        start = *end;
    }
    log.u64(r.log.0);
    log.u64(o.violations.len() as u64);
    for v in &o.violations {
        log.str(&v.sig);
    }
    o.log_hash = log.0;
    o.nontrivial = !written.is_empty() && (inside || w.stats.pendings + w.stats.interrupts > 0 || w.stats.chunks > written.len() as u64);
}

thread_local! {
    static ELSEIF_GROUPS: std::cell::RefCell<Vec<String>> = const { std::cell::RefCell::new(Vec::new()) };
}

/// does the Debug rendering of a library value show a populated else-if flag group
pub fn has_elseif_group(dbg: &str) -> bool {
    ELSEIF_GROUPS.with(|g| g.borrow().iter().any(|n| dbg.contains(n.as_str())))
}

fn collect_groups(ms: &[crate::wowm::Member], out: &mut Vec<String>) {
    use crate::wowm::Member;
    for m in ms {
        match m {
            Member::If(i) => {
                let nested = i.members.iter().any(|m| matches!(m, Member::If(_)));
                if (!i.else_ifs.is_empty() || nested) && i.conds.first().map(|c| c.op == "&").unwrap_or(false) {
                    out.push(format!("{}: Some(", i.conds[0].val.to_lowercase()));
                }
                collect_groups(&i.members, out);
                for (_, m) in &i.else_ifs {
                    collect_groups(m, out);
                }
                collect_groups(&i.else_members, out);
            }
            Member::Optional(_, ms) => collect_groups(ms, out),
            _ => {}
        }
    }
}

thread_local! {
    static OPCODES: std::cell::RefCell<Option<std::collections::HashMap<(String, Exp), u32>>> = const { std::cell::RefCell::new(None) };
}

/// opcode of message `name` as the wowm definition says (cached)
pub fn model_opcode(name: &str, exp: Exp) -> Option<u32> {
    OPCODES.with(|c| c.borrow().as_ref().and_then(|m| m.get(&(name.to_string(), exp)).copied()))
}

pub fn register_opcodes(ctx: &WorldCtx) {
    let mut m = std::collections::HashMap::new();
    for e in Exp::ALL {
        for c in &ctx.model(e).messages {
            if let Some(op) = c.opcode {
                m.insert((c.name.clone(), e), op as u32);
            }
        }
    }
    OPCODES.with(|c| *c.borrow_mut() = Some(m));
    let mut groups = Vec::new();
    for c in &ctx.corpus.containers {
        collect_groups(&c.members, &mut groups);
    }
    groups.sort();
    groups.dedup();
    ELSEIF_GROUPS.with(|g| *g.borrow_mut() = groups);
}
