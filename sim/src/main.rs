mod c02;
mod c03;
mod c04;
mod c05;
mod c06;
mod c13;
mod fault;
mod core;
mod sess;
pub use wowsim_glue::{alloc, login, model, pipe, rng, umask, umglue, world, wowm};

#[global_allocator]
static GLOBAL: alloc::Counting = alloc::Counting;

use model::*;
use rng::Rng;

fn load() -> wowm::Corpus {
    let root = format!("{}/wow_message_parser/wowm", umask::repo_root());
    match wowm::load_corpus(std::path::Path::new(&root)) {
        Ok(c) => c,
        Err(e) => {
            eprintln!("HARNESS ERROR: cannot parse wowm: {}", e);
            std::process::exit(2);
        }
    }
}

fn calibrate() {
    let corpus = load();
    eprintln!("files={} definers={} containers={} tests={}", corpus.files, corpus.definers.len(), corpus.containers.len(), corpus.tests.len());
    for v in [2u8, 3, 5, 6, 7, 8] {
        let m = match Model::new(&corpus, Target::Login(v)) {
            Ok(m) => m,
            Err(e) => {
                eprintln!("login model error {}", e);
                std::process::exit(2);
            }
        };
        for dir in [Dir::Client, Dir::Server] {
            let msgs = m.messages_dir(dir);
            let mut bad = Vec::new();
            for c in &msgs {
                for i in 0..10u64 {
                    let mut rng = Rng::new(rng::run_seed(1, &c.name, i));
                    if let Err(e) = m.encode(c, &mut rng, &Knobs::default()) {
                        bad.push(format!("{} UNMODELLED {}", c.name, e));
                        break;
                    }
                }
            }
            eprintln!("login{} {}: messages={} unmodelled={}", v, dir.name(), msgs.len(), bad.len());
            for b in bad {
                eprintln!("   {}", b);
            }
        }
    }
    for exp in Exp::ALL {
        let m = match Model::new(&corpus, Target::World(exp)) {
            Ok(m) => m,
            Err(e) => {
                eprintln!("model error {}", e);
                std::process::exit(2);
            }
        };
        for dir in [Dir::Client, Dir::Server] {
            let msgs = m.messages_dir(dir);
            let mut ok = 0;
            let mut unmodelled = 0;
            let mut rejected = 0;
            let mut mismatch = 0;
            let mut panics = 0;
            let mut bad = std::collections::BTreeMap::<String, String>::new();
            for c in &msgs {
                if std::env::var("CAL_TRACE").is_ok() { eprintln!("{}", c.name); }
                if let Ok(o) = std::env::var("CAL_ONLY") { if o != c.name { continue; } }
                if exp == Exp::Wrath && c.name == "SMSG_COMPRESSED_MOVES" { continue; }
                let mut any_ok = false;
                for i in 0..40u64 {
                    let mut rng = Rng::new(rng::run_seed(1, &c.name, i));
                    let k = Knobs::default();
                    let f = match m.encode(c, &mut rng, &k) {
                        Ok(f) => f,
                        Err(e) => {
                            unmodelled += 1;
                            bad.entry(c.name.clone()).or_insert(format!("UNMODELLED {}", e));
                            break;
                        }
                    };
                    let body = f.wire_body();
                    let mut bytes = world_header(exp, dir, f.opcode, body.len());
                    bytes.extend_from_slice(&body);
                    let r = std::panic::catch_unwind(|| world::read_plain(exp, dir, &bytes));
                    match r {
                        Err(_) => {
                            panics += 1;
                            bad.entry(c.name.clone()).or_insert(format!("PANIC {} shape={}", last_panic(), f.shape));
                        }
                        Ok((Err(e), _)) => {
                            rejected += 1;
                            bad.entry(c.name.clone()).or_insert(format!("REJECT {} shape={}", e.short(), f.shape));
                        }
                        Ok((Ok(msg), consumed)) => {
                            let back = std::panic::catch_unwind(|| world::write_plain(&msg));
                            match back {
                                Ok(Ok(b2)) => {
                                    if b2 == bytes && consumed == bytes.len() {
                                        any_ok = true;
                                    } else if f.comp_start.is_some() && b2.len() >= 4 {
                                        any_ok = true; // compressed: compared elsewhere
                                    } else {
                                        mismatch += 1;
                                        let hl = bytes.len() - body.len();
                                        let d = bytes.iter().zip(b2.iter()).position(|(a, b)| a != b).unwrap_or(0);
                                        let fld = f.fields.iter().filter(|x| x.off + hl <= d && d < x.off + hl + x.len.max(1)).map(|x| format!("{}:{:?}", x.path, x.kind)).collect::<Vec<_>>().join("|");
                                        let fld: String = fld.chars().take(200).collect();
                                        bad.entry(c.name.clone()).or_insert(format!("MISMATCH len {} vs {} first diff at {} ({:02x} vs {:02x}) field {}", bytes.len(), b2.len(), d, bytes.get(d).copied().unwrap_or(0), b2.get(d).copied().unwrap_or(0), fld));
                                    }
                                }
                                _ => {
                                    panics += 1;
                                    bad.entry(c.name.clone()).or_insert(format!("WRITE PANIC {} shape={}", last_panic(), f.shape));
                                }
                            }
                        }
                    }
                }
                if any_ok {
                    ok += 1;
                }
            }
            println!("{} {}: messages={} ok={} unmodelled={} rejected_frames={} mismatch_frames={} panics={}", exp.name(), dir.name(), msgs.len(), ok, unmodelled, rejected, mismatch, panics);
            for (k, v) in &bad {
                println!("   {} {}", k, v);
            }
        }
    }
}

fn last_panic() -> String {
    let (m, l) = core::take_panic();
    format!("{} @ {}", m, l)
}

fn make_check(id: &str) -> Box<dyn core::Check> {
    match id {
        "SELF" => Box::new(core::SelfCheck),
        "C02" => {
            let c = c02::C02::new();
            c02::register_opcodes(&c.ctx);
            Box::new(c)
        }
        "C03" => Box::new(c03::C03::new()),
        "C04" => Box::new(c04::C04::new()),
        "C05" => {
            let c = c05::C05::new();
            c02::register_opcodes(&c.ctx);
            Box::new(c)
        }
        "C06" => Box::new(c06::C06::new()),
        "C13" => Box::new(c13::C13::new()),
        _ => {
            eprintln!("HARNESS ERROR: unknown property {}", id);
            std::process::exit(2);
        }
    }
}

fn tier_of(s: &str) -> core::Tier {
    if s == "thorough" {
        core::Tier::Thorough
    } else {
        core::Tier::Quick
    }
}

fn main() {
    core::install_panic_hook();
    let args: Vec<String> = std::env::args().collect();
    let a = |i: usize| args.get(i).map(|s| s.as_str()).unwrap_or("");
    match a(1) {
        "calibrate" => calibrate(),
        "check" => {
            let c = make_check(a(2));
            std::process::exit(core::run_check(c.as_ref(), tier_of(a(3))));
        }
        "worker" => {
            let c = make_check(a(2));
            core::worker_main(c.as_ref(), tier_of(a(3)), a(4).parse().unwrap(), a(5).parse().unwrap(), a(6).parse().unwrap(), a(7).parse().unwrap(), a(8));
        }
        "exec-one" => {
            let c = make_check(a(2));
            core::exec_one_main(c.as_ref(), a(3));
        }
        "gen" => {
            let c = make_check(a(2));
            let seed = core::env_u64("VERIF_SEED", 1);
            let i: u64 = a(4).parse().unwrap_or(0);
            println!("{}", c.gen(i, rng::run_seed(seed, c.id(), i), tier_of(a(3))));
        }
        "gen-range" => {
            // debugging aid: labels of the scenarios lo..hi whose label contains a(6)
            let c = make_check(a(2));
            let seed = core::env_u64("VERIF_SEED", 1);
            let lo: u64 = a(4).parse().unwrap_or(0);
            let hi: u64 = a(5).parse().unwrap_or(0);
            for i in lo..hi {
                let sc = c.gen(i, rng::run_seed(seed, c.id(), i), tier_of(a(3)));
                let l = sc["label"].as_str().unwrap_or("").to_string();
                if l.contains(a(6)) {
                    println!("{} {} kind={} entry={} number={} fault={}", i, l, sc["kind"], sc["entry"], sc["number"], sc["fault"]);
                }
            }
        }
        "selftest-supervisor" => std::process::exit(core::selftest_supervisor()),
        "replay" => {
            let txt = std::fs::read_to_string(a(2)).unwrap_or_default();
            let doc: serde_json::Value = serde_json::from_str(&txt).unwrap_or(serde_json::Value::Null);
            let id = doc["property"].as_str().unwrap_or("").to_string();
            let c = make_check(&id);
            std::process::exit(core::replay_file(&[c.as_ref()], std::path::Path::new(a(2))));
        }
        _ => {
            eprintln!("usage: wowsim check <ID> <quick|thorough> | replay <file> | calibrate");
            std::process::exit(2);
        }
    }
}
