//! C03 — decoding is total: a hostile or broken peer and a lossy-at-the-end network feed every
//! public reader; the call must return Ok or Err - no panic, abort, overflow trap, step-budget
//! overrun or allocation beyond the budget.

use crate::c02::WorldCtx;
use crate::core::*;
use crate::fault::*;
use crate::login::*;
use crate::model::*;
use crate::pipe::{Schedule, SimReader};
use crate::rng::{Fnv, Rng};
use crate::sess::*;
use crate::world::*;
use serde_json::{json, Value};

pub struct AllCtx {
    pub world: WorldCtx,
    pub login: Vec<(u8, Model<'static>)>,
}

impl AllCtx {
    pub fn new() -> AllCtx {
        let world = WorldCtx::new();
        let login = VERSIONS.iter().map(|v| (*v, model_or_exit(world.corpus, Target::Login(*v)))).collect();
        AllCtx { world, login }
    }
    pub fn login_model(&self, v: u8) -> &Model<'static> {
        &self.login.iter().find(|x| x.0 == v).unwrap().1
    }
}

#[derive(Clone, Debug)]
pub struct Case {
    pub login: Option<u8>,
    pub exp: Exp,
    pub dir: Dir,
    pub name: String,
}

impl Case {
    pub fn label(&self) -> String {
        match self.login {
            Some(v) => format!("login{}:{}:{}", v, self.dir.name(), self.name),
            None => format!("{}:{}:{}", self.exp.name(), self.dir.name(), self.name),
        }
    }
}

pub fn all_cases(ctx: &AllCtx) -> Vec<Case> {
    let mut v = Vec::new();
    for (ver, m) in &ctx.login {
        for d in [Dir::Client, Dir::Server] {
            for c in m.messages_dir(d) {
                v.push(Case { login: Some(*ver), exp: Exp::Vanilla, dir: d, name: c.name.clone() });
            }
        }
    }
    for e in Exp::ALL {
        for d in [Dir::Client, Dir::Server] {
            for c in ctx.world.model(e).messages_dir(d) {
                v.push(Case { login: None, exp: e, dir: d, name: c.name.clone() });
            }
        }
    }
    v
}

pub const SLOTS: u64 = 96;

/// pseudo shape numbers for the pair-of-faults rows
pub const PAIR_RICH: u64 = 1000;
pub const PAIR_MINIMAL: u64 = 1001;

/// fewest slots a (case, shape) gets; slots beyond its enumerated mutations draw random mutations
pub const MIN_SLOTS: u64 = 24;

/// the enumerated part: for every (case, shape number) as many slots as that frame has enumerated mutations
pub struct EnumTable {
    /// (case index, shape number, first index, slots)
    rows: Vec<(usize, u64, u64, u64)>,
    total: u64,
}

pub struct C03 {
    pub ctx: AllCtx,
    cases: Vec<Case>,
    table_quick: std::sync::OnceLock<EnumTable>,
    table_thorough: std::sync::OnceLock<EnumTable>,
}

impl C03 {
    pub fn new() -> C03 {
        let ctx = AllCtx::new();
        let cases = all_cases(&ctx);
        C03 { ctx, cases, table_quick: std::sync::OnceLock::new(), table_thorough: std::sync::OnceLock::new() }
    }
    /// the frame of a case depends only on (master seed, case, shape number). Shape 0 is the richest of 6 candidates
    /// (most enumerated mutations: most fields, branches taken, arrays non-empty); further shapes are plain draws.
    fn frame_for(&self, case: &Case, shape: u64, master: u64) -> Option<(Frame, Vec<Mutation>)> {
        let world = case.login.is_none();
        let knobs = Knobs { allow_nan: true, ..Knobs::default() };
        let muts_of = |f: &Frame| {
            let mut muts = compressed_mutations(f);
            muts.extend(field_mutations(f));
            muts.extend(truncations(f, world));
            if world {
                muts.extend(header_mutations(f, case.exp, case.dir));
            }
            muts
        };
        if shape == PAIR_MINIMAL {
            // the leanest frame (empty arrays and strings, optional parts absent): pairs of faults only
            let mut wl = Rng::new(crate::rng::run_seed(master ^ 0x9A1B, &case.label(), 0xC03));
            let kn = Knobs { max_arr: 0, max_str: 0, take_optional: Some(false), ..knobs.clone() };
            let f = encode_case(&self.ctx, case, &mut wl, &kn)?;
            let m = pair_mutations(&f, 120);
            return Some((f, m));
        }
        if shape == PAIR_RICH {
            let (f, _) = self.frame_for(case, 0, master)?;
            let m = pair_mutations(&f, 160);
            return Some((f, m));
        }
        if shape == 0 {
            let mut best: Option<(Frame, Vec<Mutation>)> = None;
            for k in 0..6u64 {
                let mut wl = Rng::new(crate::rng::run_seed(master.wrapping_add(k << 32), &case.label(), 0xC03));
                let kn = if k == 1 { Knobs { take_optional: Some(true), ..knobs.clone() } } else { knobs.clone() };
                if let Some(f) = encode_case(&self.ctx, case, &mut wl, &kn) {
                    if f.plain.len() > 6000 {
                        continue;
                    }
                    let m = muts_of(&f);
                    if best.as_ref().map(|b| m.len() > b.1.len()).unwrap_or(true) {
                        best = Some((f, m));
                    }
                }
            }
            best
        } else {
            let mut wl = Rng::new(crate::rng::run_seed(master.wrapping_add(shape), &case.label(), 0xC03));
            let f = encode_case(&self.ctx, case, &mut wl, &knobs)?;
            let m = muts_of(&f);
            Some((f, m))
        }
    }
    fn table(&self, tier: Tier) -> &EnumTable {
        let master = env_u64("VERIF_SEED", 1);
        let (cell, shapes) = match tier {
            Tier::Quick => (&self.table_quick, 1u64),
            Tier::Thorough => (&self.table_thorough, 3u64),
        };
        cell.get_or_init(|| {
            let mut rows = Vec::new();
            let mut total = 0u64;
            for shape in 0..shapes {
                for (ci, c) in self.cases.iter().enumerate() {
                    let n = self.frame_for(c, shape, master).map(|x| x.1.len() as u64).unwrap_or(0).clamp(if shape == 0 { MIN_SLOTS } else { 1 }, 600);
                    rows.push((ci, shape, total, n));
                    total += n;
                }
            }
            // pairs of faults (T10) on the richest and on the leanest frame of every message
            for shape in [PAIR_RICH, PAIR_MINIMAL] {
                for (ci, c) in self.cases.iter().enumerate() {
                    let n = self.frame_for(c, shape, master).map(|x| x.1.len() as u64).unwrap_or(0);
                    if n > 0 {
                        rows.push((ci, shape, total, n));
                        total += n;
                    }
                }
            }
            EnumTable { rows, total }
        })
    }
}

/// cases the model peer cannot encode at all (they are named in the evidence: nothing is skipped silently)
pub fn unmodelled_cases(ctx: &AllCtx, cases: &[Case]) -> Vec<String> {
    let mut v = Vec::new();
    for c in cases {
        let mut ok = false;
        for k in 0..4u64 {
            let mut rng = Rng::new(crate::rng::run_seed(1, &c.label(), 0xCA11 + k));
            if encode_case(ctx, c, &mut rng, &Knobs::default()).is_some() {
                ok = true;
                break;
            }
        }
        if !ok {
            v.push(c.label());
        }
    }
    v
}

pub fn model_for<'a>(ctx: &'a AllCtx, c: &Case) -> &'a Model<'static> {
    match c.login {
        Some(v) => ctx.login_model(v),
        None => ctx.world.model(c.exp),
    }
}

/// frame + stream for one case
pub fn encode_case(ctx: &AllCtx, c: &Case, rng: &mut Rng, knobs: &Knobs) -> Option<Frame> {
    let m = model_for(ctx, c);
    let cont = m.message(&c.name)?;
    m.encode(cont, rng, knobs).ok()
}

pub fn intact_stream(c: &Case, f: &Frame) -> Vec<u8> {
    match c.login {
        Some(_) => f.plain.clone(),
        None => world_wire(c.exp, c.dir, f),
    }
}

pub fn mutated_stream(c: &Case, f: &Frame, m: &Mutation) -> Vec<u8> {
    match c.login {
        Some(_) => assemble_login(m),
        None => assemble_world(c.exp, c.dir, f.opcode, m),
    }
}

/// one read through the chosen entry point; returns (signature of outcome, polls, exceeded)
pub enum Entry {
    Enum,
    Expect(String),
    Initial,
    /// login only: the protocol-parameterised reader of the collective (version 8) opcode enum
    EnumProtocol,
    /// login only: the protocol-parameterised typed helper for the collective type of that name
    ExpectProtocol(String),
}

pub fn read_any(c: &Case, entry: &Entry, fl: Flavour, rd: &mut SimReader<'_>, budget: u64) -> (Result<String, ErrSig>, u64, bool) {
    match c.login {
        Some(v) => {
            let o = match entry {
                Entry::Enum => login_read_enum(v, c.dir, fl, rd, budget),
                Entry::Expect(n) => login_read_expect(v, c.dir, n, fl, rd, budget),
                Entry::Initial => Some(login_read_initial(fl, rd, budget)),
                Entry::EnumProtocol => login_read_enum_protocol(v, c.dir, fl, rd, budget),
                Entry::ExpectProtocol(n) => login_read_expect_protocol(v, c.dir, n, fl, rd, budget),
            };
            match o {
                Some(o) => (o.result.map(|(d, b)| format!("{}|{}", d, hex(&b))), o.polls, o.budget_exceeded),
                None => (Err(ErrSig { outer: "HARNESS".into(), kind: "no-entry".into(), detail: String::new() }), 0, false),
            }
        }
        None => {
            let o = match entry {
                Entry::Expect(n) | Entry::ExpectProtocol(n) => read_expect(c.exp, c.dir, n, fl, None, rd, budget).map(|x| x.0),
                _ => Some(read_enum(c.exp, c.dir, fl, None, rd, budget)),
            };
            match o {
                Some(o) => (o.result.map(|m| m.debug()), o.polls, o.budget_exceeded),
                None => (Err(ErrSig { outer: "HARNESS".into(), kind: "no-entry".into(), detail: String::new() }), 0, false),
            }
        }
    }
}

pub fn entry_of(v: &Value) -> Entry {
    let s = v.as_str().unwrap_or("enum");
    if s == "initial" {
        Entry::Initial
    } else if let Some(n) = s.strip_prefix("expect:") {
        Entry::Expect(n.to_string())
    } else if let Some(n) = s.strip_prefix("expect-protocol:") {
        Entry::ExpectProtocol(n.to_string())
    } else if s == "enum-protocol" {
        Entry::EnumProtocol
    } else {
        Entry::Enum
    }
}

pub fn case_of(sc: &Value) -> Case {
    Case {
        login: sc["login"].as_u64().map(|x| x as u8),
        exp: exp_of(&sc["exp"]),
        dir: dir_of(&sc["dir"]),
        name: sc["name"].as_str().unwrap_or("").to_string(),
    }
}

pub fn case_json(c: &Case) -> Value {
    json!({"login": c.login, "exp": c.exp.name(), "dir": c.dir.name(), "name": c.name})
}

impl Check for C03 {
    fn judges_memory_budget(&self) -> bool {
        true
    }
    fn id(&self) -> &'static str {
        "C03"
    }
    fn level(&self) -> &'static str {
        "fault_enumeration"
    }
    fn rule(&self) -> String {
        format!("Fault enumeration through the model peer's field maps: for every message of every target (6 login protocol versions, 3 expansions, both directions; quick tier: one frame shape per message, thorough: three) a canonical frame is generated and every structured corruption is injected once (as many slots per message as its richest frame out of 6 candidates has enumerated faults, at least {}; thorough: two more shapes): truncation at each field boundary and inside a field (stream ends early / header announces less), every count/length/size/decompressed-size/mask-block-count field set to 0, 1, true+-1, 0x7F.., 0x80.., max, every enum field an undeclared value, Bool>=2, flags all-ones, DateTime out of range and at its field boundaries (hour 24, month 12, the day after the month's last with each of the 7 weekdays), a well-formed zlib stream that inflates to 1.25 GiB, strings without NUL / invalid UTF-8 / 300 bytes, packed-guid and built-in mask patterns announcing more than remains, sentinel-less achievement arrays; header forms and sizes no writer produces (T11: a size smaller than the opcode it includes; for Wrath server messages the 3-byte form carrying 0..4, 0x7FFF, 0x8000, 0x7FFFFF; with and without bytes after the header); pairs of faults (T10: a string or count fault in one field AND the body ending at a later field boundary, on the richest and on the leanest frame of the message); slots beyond the enumerated faults and the sampled part draw compressed-payload corruption, lying headers, bit flips, random bodies and combinations. The faulty frame is placed after 0-2 intact messages and before one more, and is read through the opcode-enum reader, the typed expect helper (and read_initial_message for login) by the blocking (whole buffer and chunked with EINTR), tokio and async-std readers under a scheduled delivery, and (world) once more through the decrypting readers with the headers encrypted under the session key, as an authenticated hostile peer would send them. Every read must return Ok or Err; panics are caught with location, process deaths attributed by the supervisor, allocation observed by a counting allocator (budget 1 GiB per scenario). Non-trivial: the fault actually reached a reader (a mutated byte or the cut was delivered); distinct = distinct event-log hashes.", MIN_SLOTS)
    }
    fn assumptions(&self) -> Vec<String> {
        vec![
            "any Err is acceptable, so the model's idea of 'valid' cannot cause an alarm; only panics/aborts/stalls/allocations are judged".into(),
            "memory budget of 1 GiB address space per decode is a design choice (64x the largest frame a header can announce)".into(),
            "a panic whose location is outside the repository and its dependencies is a harness error (exit 2)".into(),
        ]
    }
    fn components(&self) -> Value {
        json!({"real": ["wow_world_messages readers (working tree)", "wow_login_messages readers (3 generated copies per message)", "flate2/zlib", "tokio/futures read_exact"],
               "simulated": ["hostile peer (model peer + fault targeting)", "transport (SimPipe)", "executor", "allocator budget (counting global allocator)", "process supervisor (abort attribution)"],
               "not_exercised": ["login has no encrypted entry points"]})
    }
    fn plan(&self, tier: Tier) -> (u64, u64) {
        match tier {
            Tier::Quick => (self.table(tier).total, env_u64("VERIF_C03_RUNS", 60_000)),
            Tier::Thorough => (self.table(tier).total, env_u64("VERIF_C03_RUNS", 4_000_000)),
        }
    }
    fn gen(&self, i: u64, seed: u64, tier: Tier) -> Value {
        let rng = Rng::new(seed);
        let mut cf = rng.fork("config");
        let mut sr = rng.fork("schedule");
        let mut fr = rng.fork("faults");
        let (n_enum, _) = self.plan(tier);
        let master = env_u64("VERIF_SEED", 1);
        let (case, slot, shape) = if i < n_enum {
            let t = self.table(tier);
            let r = t.rows.partition_point(|row| row.2 + row.3 <= i);
            let (ci, shape, first, _n) = t.rows[r];
            (self.cases[ci].clone(), Some(i - first), shape)
        } else {
            // sampled part: a random case, a fresh frame per run
            (cf.pick(&self.cases).clone(), None, 1 + (seed >> 8))
        };
        let Some((f, muts)) = self.frame_for(&case, shape, master) else {
            // the model peer cannot encode this message (a built-in it does not know): its opcode is still defined and a
            // hostile peer can still send it, so it gets bodies of arbitrary bytes and lengths
            let opcode = model_for(&self.ctx, &case).message(&case.name).and_then(|c| c.opcode);
            if let (None, Some(op)) = (case.login, opcode) {
                let n = match slot {
                    Some(s) => [0usize, 1, 3, 4, 5, 8, 9, 12, 16, 20, 33, 64, 200, 1000][(s % 14) as usize],
                    None => fr.below(300) as usize,
                };
                let body: Vec<u8> = (0..n).map(|k| if slot.map(|s| s % 3 == 0).unwrap_or(false) { 0 } else { fr.below(256) as u8 + (k as u8 & 0) }).collect();
                let mut faulty = world_header(case.exp, case.dir, op as u32, body.len());
                faulty.extend_from_slice(&body);
                let total = faulty.len() + 200;
                return json!({"label": case.label(), "case": case_json(&case), "fault_kind": "T9", "fault": format!("unmodelled message: {} arbitrary body bytes", n), "enumerated": slot.is_some(),
                    "pre": [], "faulty": bytes_to_json(&faulty), "post": Value::Null, "entry": if i % 2 == 0 { "enum".to_string() } else { format!("expect:{}", case.name) }, "end_error": "",
                    "sched_async": sched_json(&Schedule::random(&mut sr, total, false)),
                    "sched_sync": sched_json(&Schedule::random(&mut sr, total, true))});
            }
            return json!({"label": case.label(), "case": case_json(&case), "skip": "unmodelled"});
        };
        let world = case.login.is_none();
        let (m, enumerated) = match slot {
            Some(s) if (s as usize) < muts.len() => (muts[s as usize].clone(), true),
            _ => (random_mutation(&f, &mut fr, world), false),
        };
        let faulty = mutated_stream(&case, &f, &m);
        // 0-2 intact messages of the same direction before, one after
        let n_pre = if enumerated { (slot.unwrap_or(0) % 3) as usize } else { cf.below(3) as usize };
        let mut pre = Vec::new();
        let model = model_for(&self.ctx, &case);
        let msgs = model.messages_dir(case.dir);
        for _ in 0..n_pre {
            let c2 = *cf.pick(&msgs);
            if let Ok(f2) = model.encode(c2, &mut cf, &Knobs::default()) {
                let c2case = Case { name: f2.name.clone(), ..case.clone() };
                pre.push(json!({"name": f2.name, "bytes": bytes_to_json(&intact_stream(&c2case, &f2))}));
            }
        }
        let post = {
            let c2 = *cf.pick(&msgs);
            model.encode(c2, &mut cf, &Knobs::default()).ok().map(|f2| {
                let c2case = Case { name: f2.name.clone(), ..case.clone() };
                json!({"name": f2.name, "bytes": bytes_to_json(&intact_stream(&c2case, &f2))})
            })
        };
        let total = faulty.len() + 200;
        let entry = match (case.login, cf.below(if case.login.is_some() { 5 } else { 3 })) {
            (Some(_), 0) if case.dir == Dir::Client && (case.name == "CMD_AUTH_LOGON_CHALLENGE_Client" || case.name == "CMD_AUTH_RECONNECT_CHALLENGE_Client") => "initial".to_string(),
            (_, 1) => format!("expect:{}", case.name),
            (Some(_), 3) => "enum-protocol".to_string(),
            (Some(_), 4) => format!("expect-protocol:{}", case.name),
            _ => "enum".to_string(),
        };
        let end_error = match cf.below(4) {
            0 => "ConnectionReset",
            1 => "BrokenPipe",
            _ => "",
        };
        json!({"label": case.label(), "case": case_json(&case), "fault_kind": m.kind, "fault": m.desc, "enumerated": enumerated,
            "pre": pre, "faulty": bytes_to_json(&faulty), "post": post, "entry": entry, "end_error": end_error,
            "sched_async": sched_json(&Schedule::random(&mut sr, total, false)),
            "sched_sync": sched_json(&Schedule::random(&mut sr, total, true))})
    }

    fn exec(&self, sc: &Value) -> Outcome {
        let mut o = Outcome::default();
        if sc.get("skip").is_some() {
            o.count("unmodelled", 1);
            return o;
        }
        let case = case_of(&sc["case"]);
        let mut stream = Vec::new();
        let mut names = Vec::new();
        if let Some(a) = sc["pre"].as_array() {
            for p in a {
                stream.extend_from_slice(&json_to_bytes(&p["bytes"]));
                names.push(p["name"].as_str().unwrap_or("").to_string());
            }
        }
        let fault_at = stream.len();
        let faulty = json_to_bytes(&sc["faulty"]);
        stream.extend_from_slice(&faulty);
        names.push(case.name.clone());
        if !sc["post"].is_null() {
            stream.extend_from_slice(&json_to_bytes(&sc["post"]["bytes"]));
            names.push(sc["post"]["name"].as_str().unwrap_or("").to_string());
        }
        let entry0 = entry_of(&sc["entry"]);
        let kind = sc["fault_kind"].as_str().unwrap_or("?").to_string();
        let end_error = match sc["end_error"].as_str().unwrap_or("") {
            "ConnectionReset" => Some(std::io::ErrorKind::ConnectionReset),
            "BrokenPipe" => Some(std::io::ErrorKind::BrokenPipe),
            _ => None,
        };
        let whole = Schedule::whole();
        let sa = sched_of(&sc["sched_async"]);
        let ss = sched_of(&sc["sched_sync"]);
        let mut log = Fnv::new();
        let mut reached = false;
        for (fl, sched, tag) in [(Flavour::Sync, &whole, "sync"), (Flavour::Sync, &ss, "sync-chunked"), (Flavour::Tokio, &sa, "tokio"), (Flavour::Astd, &sa, "astd")] {
            let mut r = SimReader::new(&stream, sched);
            r.end_error = end_error;
            let budget = 8 * stream.len() as u64 + 4096 + 4 * sched.steps.len() as u64 * 4;
            let max_reads = names.len() + 1;
            for k in 0..max_reads {
                let before = r.consumed();
                // the typed helper is asked for the type the peer is supposed to send at this position
                let entry = match (&entry0, names.get(k)) {
                    (Entry::Expect(_), Some(n)) => Entry::Expect(n.clone()),
                    (Entry::ExpectProtocol(_), Some(n)) => Entry::ExpectProtocol(n.clone()),
                    (Entry::ExpectProtocol(_), None) | (Entry::EnumProtocol, _) => Entry::EnumProtocol,
                    (Entry::Initial, _) if k == names.len() - 1 - if sc["post"].is_null() { 0 } else { 1 } => Entry::Initial,
                    (Entry::Initial, _) => Entry::Enum,
                    (Entry::Expect(_), None) => Entry::Enum,
                    _ => Entry::Enum,
                };
                let res = guarded(|| read_any(&case, &entry, fl, &mut r, budget));
                match res {
                    Err((msg, loc)) => {
                        if is_repo_location(&loc) {
                            o.violate("no_panic", panic_sig(&msg, &loc), format!("{} reader panicked on {} [{} | {}]: '{}' at {}", tag, case.label(), kind, sc["fault"].as_str().unwrap_or(""), msg, loc));
                        } else {
                            o.violate("HARNESS", format!("harness-panic:{}", loc), format!("harness panic '{}' at {}", msg, loc));
                        }
                        log.str("panic");
                        break;
                    }
                    Ok((result, polls, exceeded)) => {
                        o.ticks += polls;
                        if exceeded {
                            o.violate("bounded_liveness", format!("read-stall:{}:{}", tag, case.label()), format!("{} reader did not return within {} polls", tag, budget));
                            break;
                        }
                        match &result {
                            Ok(_) => {
                                log.u8(1);
                                o.count("reads_ok", 1);
                            }
                            Err(e) => {
                                if e.outer == "HARNESS" {
                                    o.count("entry_unavailable", 1);
                                    break;
                                }
                                log.str(&e.short());
                                o.count("reads_err", 1);
                            }
                        }
                        log.u64(r.consumed() as u64);
                        if r.consumed() > fault_at {
                            reached = true;
                        }
                        if r.consumed() >= stream.len() || r.consumed() == before {
                            break;
                        }
                    }
                }
            }
            o.count(&format!("flavour_{}", tag), 1);
            o.bytes += r.consumed() as u64;
            o.count("pendings", r.stats.pendings);
            o.count("interrupts", r.stats.interrupts);
            o.count("eof_or_error_at_end", r.stats.eofs);
            log.u64(r.log.0);
        }
        // the same stream from an authenticated hostile peer: headers encrypted with the session's cipher, read through
        // the decrypting entry points (world only)
        if case.login.is_none() {
            let mut starts = vec![];
            let mut p = 0usize;
            if let Some(a) = sc["pre"].as_array() {
                for x in a {
                    starts.push(p);
                    p += json_to_bytes(&x["bytes"]).len();
                }
            }
            starts.push(fault_at);
            if !sc["post"].is_null() {
                starts.push(fault_at + faulty.len());
            }
            for (fl, sched, tag) in [(Flavour::Sync, &ss, "enc-sync"), (Flavour::Tokio, &sa, "enc-tokio"), (Flavour::Astd, &sa, "enc-astd")] {
                let mut crypto = session_crypto(case.exp, [7u8; 40]);
                let mut enc_stream = stream.clone();
                for s in &starts {
                    if *s >= enc_stream.len() {
                        continue;
                    }
                    let hl = match case.dir {
                        Dir::Client => 6,
                        Dir::Server => {
                            if case.exp == Exp::Wrath && enc_stream[*s] & 0x80 != 0 {
                                5
                            } else {
                                4
                            }
                        }
                    };
                    let end = (*s + hl).min(enc_stream.len());
                    let e = match case.dir {
                        Dir::Client => &mut crypto.client_enc,
                        Dir::Server => &mut crypto.server_enc,
                    };
                    e.encrypt(&mut enc_stream[*s..end]);
                }
                let mut r = SimReader::new(&enc_stream, sched);
                r.end_error = end_error;
                let budget = 8 * enc_stream.len() as u64 + 4096 + 16 * sched.steps.len() as u64;
                for k in 0..names.len() + 1 {
                    let before = r.consumed();
                    let dec = match case.dir {
                        Dir::Client => &mut crypto.server_dec,
                        Dir::Server => &mut crypto.client_dec,
                    };
                    let res = guarded(|| match (&entry0, names.get(k)) {
                        (Entry::Expect(_), Some(n)) => read_expect(case.exp, case.dir, n, fl, Some(dec), &mut r, budget).map(|x| x.0),
                        _ => Some(read_enum(case.exp, case.dir, fl, Some(dec), &mut r, budget)),
                    });
                    match res {
                        Err((msg, loc)) => {
                            if is_repo_location(&loc) {
                                o.violate("no_panic", panic_sig(&msg, &loc), format!("{} reader panicked on {} [{} | {}]: '{}' at {}", tag, case.label(), kind, sc["fault"].as_str().unwrap_or(""), msg, loc));
                            } else {
                                o.violate("HARNESS", format!("harness-panic:{}", loc), format!("harness panic '{}' at {}", msg, loc));
                            }
                            break;
                        }
                        Ok(None) => break,
                        Ok(Some(ro)) => {
                            o.ticks += ro.polls;
                            if ro.budget_exceeded {
                                o.violate("bounded_liveness", format!("read-stall:{}:{}", tag, case.label()), format!("{} reader did not return within {} polls", tag, budget));
                                break;
                            }
                            log.u64(r.consumed() as u64);
                            if r.consumed() >= enc_stream.len() || r.consumed() == before {
                                break;
                            }
                        }
                    }
                }
                o.count(&format!("flavour_{}", tag), 1);
            }
        }
        o.count(&format!("fault_fired_{}", kind), reached as u64);
        o.count(if sc["enumerated"] == true { "enumerated_faults" } else { "sampled_faults" }, 1);
        if fault_at > 0 && reached {
            o.count("progress_before_first_fault", 1);
        }
        for v in &o.violations {
            log.str(&v.sig);
        }
        o.log_hash = log.0;
        o.nontrivial = reached;
        o
    }

    fn extra_evidence(&self) -> Value {
        json!({"messages_the_model_peer_cannot_encode": unmodelled_cases(&self.ctx, &self.cases),
               "note_unmodelled": "these get frames with their opcode and arbitrary bodies instead of field-targeted faults"})
    }
    fn shrink(&self, sc: &Value) -> Vec<Value> {
        let mut out = Vec::new();
        if sc["pre"].as_array().map(|a| !a.is_empty()).unwrap_or(false) {
            let mut s = sc.clone();
            s["pre"] = json!([]);
            out.push(s);
        }
        if !sc["post"].is_null() {
            let mut s = sc.clone();
            s["post"] = Value::Null;
            out.push(s);
        }
        for key in ["sched_async", "sched_sync"] {
            for t in shrink_sched(&sched_of(&sc[key])).into_iter().take(3) {
                let mut s = sc.clone();
                s[key] = sched_json(&t);
                out.push(s);
            }
        }
        if sc["entry"] != "enum" {
            let mut s = sc.clone();
            s["entry"] = json!("enum");
            out.push(s);
        }
        if sc["end_error"] != "" {
            let mut s = sc.clone();
            s["end_error"] = json!("");
            out.push(s);
        }
        // shorten the faulty frame from the end
        let b = json_to_bytes(&sc["faulty"]);
        if b.len() > 8 {
            for keep in [b.len() / 2, b.len() - 1] {
                let mut s = sc.clone();
                s["faulty"] = bytes_to_json(&b[..keep]);
                out.push(s);
            }
        }
        out
    }
}
