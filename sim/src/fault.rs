//! Fault targeting through the model peer's field maps: "valid up to field k, then ...".
//! Everything here is pure byte manipulation on model frames; no library code is called.

use crate::model::*;
use crate::rng::Rng;

#[derive(Clone, Debug)]
pub struct Mutation {
    pub kind: &'static str, // T1..T9 class name
    pub desc: String,
    /// logical body after the mutation (uncompressed view)
    pub plain: Vec<u8>,
    pub comp_start: Option<usize>,
    /// wire-level override of the body (used for compressed-payload corruption); when set, `plain` is ignored
    pub wire_body: Option<Vec<u8>>,
    /// delta applied to the header's size field (world only): the header lies
    pub size_delta: i64,
    /// cut the final stream (header + body) after this many bytes
    pub cut_stream_at: Option<usize>,
    /// world only: the size bytes of the header are replaced by exactly these bytes (any form, any value), the opcode follows
    pub raw_size_bytes: Option<Vec<u8>>,
}

impl Mutation {
    fn base(f: &Frame, kind: &'static str, desc: String) -> Mutation {
        Mutation { kind, desc, plain: f.plain.clone(), comp_start: f.comp_start, wire_body: None, size_delta: 0, cut_stream_at: None, raw_size_bytes: None }
    }
    pub fn body(&self) -> Vec<u8> {
        match &self.wire_body {
            Some(w) => w.clone(),
            None => body_to_wire(&self.plain, self.comp_start),
        }
    }
}

fn put(plain: &mut [u8], off: usize, len: usize, v: u64, be: bool) {
    let le = v.to_le_bytes();
    for i in 0..len.min(8) {
        plain[off + i] = if be { le[len.min(8) - 1 - i] } else { le[i] };
    }
}

fn get(plain: &[u8], off: usize, len: usize) -> u64 {
    let mut v = 0u64;
    for i in (0..len.min(8)).rev() {
        v = (v << 8) | plain[off + i] as u64;
    }
    v
}

fn max_of(len: usize) -> u64 {
    if len >= 8 {
        u64::MAX
    } else {
        (1u64 << (len * 8)) - 1
    }
}

/// value classes for count / length / size fields
fn count_classes(cur: u64, len: usize) -> Vec<(String, u64)> {
    let max = max_of(len);
    let mut v = vec![
        ("0".to_string(), 0),
        ("1".to_string(), 1),
        ("true+1".to_string(), cur.wrapping_add(1) & max),
        ("true-1".to_string(), cur.wrapping_sub(1) & max),
        ("0x7f..".to_string(), max >> 1),
        ("0x80..".to_string(), (max >> 1) + 1),
        ("max".to_string(), max),
    ];
    if len == 4 {
        v.push(("0x00ffffff".to_string(), 0x00FF_FFFF));
        v.push(("0x10000".to_string(), 0x10000));
        // large but below / at typical allocation guards: what an allocation proportional to count x in-memory size needs
        v.push(("0x7fffff".to_string(), 0x7F_FFFF));
        v.push(("0x200000".to_string(), 0x20_0000));
    }
    v.retain(|(_, x)| *x != cur);
    v.dedup_by_key(|(_, x)| *x);
    v
}

/// undeclared values for an enum field of `len` bytes; for upcast fields aliases of declared values
/// modulo 2^8 / 2^16 are interleaved with the plain candidates so that the first few entries contain both
pub fn undeclared_values(declared: &[u64], len: usize, upcast: bool) -> Vec<u64> {
    let max = max_of(len);
    let is_decl = |v: u64| declared.contains(&v);
    let mut plain: Vec<u64> = Vec::new();
    let mut push = |c: u64, plain: &mut Vec<u64>| {
        if c <= max && !is_decl(c) && !plain.contains(&c) {
            plain.push(c);
        }
    };
    // the value just above the largest declared one comes first (where a newer version of the enum would continue), then
    // the largest value of the width, then the one below the smallest, then every gap next to a declared value
    if let Some(hi) = declared.iter().copied().filter(|d| *d <= max).max() {
        push(hi.wrapping_add(1), &mut plain);
    }
    push(max, &mut plain);
    if let Some(lo) = declared.iter().copied().min() {
        if lo > 0 {
            push(lo - 1, &mut plain);
        }
    }
    let mut sorted: Vec<u64> = declared.to_vec();
    sorted.sort();
    for d in sorted.iter() {
        for c in [d.wrapping_add(1) & max, d.wrapping_sub(1) & max] {
            push(c, &mut plain);
        }
        if plain.len() >= 24 {
            break;
        }
    }
    let mut alias: Vec<u64> = Vec::new();
    if upcast {
        for d in declared.iter().take(4) {
            for k in [1u64, 2, 255] {
                for sh in [8u32, 16] {
                    if (sh as usize) < len * 8 {
                        let c = d.wrapping_add(k << sh) & max;
                        if !is_decl(c) && !alias.contains(&c) && !plain.contains(&c) {
                            alias.push(c);
                        }
                    }
                }
            }
        }
    }
    let mut out = Vec::new();
    let (mut i, mut j) = (0, 0);
    while out.len() < 12 && (i < plain.len() || j < alias.len()) {
        if i < plain.len() {
            out.push(plain[i]);
            i += 1;
        }
        if j < alias.len() {
            out.push(alias[j]);
            j += 1;
        }
    }
    out
}

/// T2/T3/T7/T8: one mutation per (field, value class)
pub fn field_mutations(f: &Frame) -> Vec<Mutation> {
    let mut out = Vec::new();
    for (fi, fld) in f.fields.iter().enumerate() {
        if fld.off + fld.len > f.plain.len() {
            continue;
        }
        let cur = get(&f.plain, fld.off, fld.len);
        let mut set = |kind: &'static str, class: &str, v: u64, out: &mut Vec<Mutation>| {
            let mut m = Mutation::base(f, kind, format!("field#{} {} ({:?}) := {} [{:#x}]", fi, fld.path, short_kind(&fld.kind), class, v));
            put(&mut m.plain, fld.off, fld.len, v, false);
            out.push(m);
        };
        match &fld.kind {
            FKind::Count { .. } | FKind::StrLen | FKind::SelfSize | FKind::CompressedSize | FKind::MaskBlocks => {
                for (c, v) in count_classes(cur, fld.len) {
                    set("T2", &c, v, &mut out);
                }
            }
            FKind::Enum { declared, upcast, .. } => {
                for v in undeclared_values(declared, fld.len, *upcast).into_iter().take(3) {
                    set("T3", "undeclared", v, &mut out);
                }
            }
            FKind::Bool => {
                set("T3", "bool=2", 2, &mut out);
                set("T3", "bool=max", max_of(fld.len), &mut out);
            }
            FKind::Flag { .. } => {
                set("T3", "flag=all-ones", max_of(fld.len), &mut out);
            }
            FKind::DateTime => {
                set("T3", "datetime=max", 0xFFFF_FFFF, &mut out);
                set("T3", "datetime=minute60", (cur & !0x3F) | 60, &mut out);
                set("T3", "datetime=hour24", (cur & !(0x1F << 6)) | (24 << 6), &mut out);
                set("T3", "datetime=month12", (cur & !(0xF << 20)) | (12 << 20), &mut out);
                // the day after the last day of the month (zero-based day == days in month), with every weekday
                let y = 2000 + ((cur >> 24) & 0xFF);
                let mo = ((cur >> 20) & 0xF).min(11);
                let leap = (y % 4 == 0 && y % 100 != 0) || y % 400 == 0;
                let dim = [31u64, if leap { 29 } else { 28 }, 31, 30, 31, 30, 31, 31, 30, 31, 30, 31][mo as usize];
                for wd in 0..7u64 {
                    let v = (cur & !(0x3F << 14) & !(0x7 << 11)) | (dim << 14) | (wd << 11);
                    set("T3", "datetime=day-after-month-end", v, &mut out);
                }
                for wd in 0..7u64 {
                    let v = (cur & !(0x3F << 14) & !(0x7 << 11)) | ((dim - 1) << 14) | (wd << 11);
                    if v != cur {
                        set("T3", "datetime=last-day-other-weekday", v, &mut out);
                    }
                }
                // the ends of the calendar the field can express: the last and the first year, December / January, the last
                // day and the day after it, every weekday (date arithmetic that carries into the next year or month)
                for (yy, mm, dd) in [(255u64, 11u64, 30u64), (255, 11, 31), (0, 0, 0), (0, 1, 28), (0, 1, 29), (255, 1, 28)] {
                    for wd in 0..7u64 {
                        let v = (cur & 0x0000_07FF) | (yy << 24) | (mm << 20) | (dd << 14) | (wd << 11);
                        set("T3", "datetime=calendar-end", v, &mut out);
                    }
                }
            }
            FKind::PackedGuid => {
                let mut m = Mutation::base(f, "T8", format!("field#{} {} packed-guid mask 0xff", fi, fld.path));
                m.plain[fld.off] = 0xFF;
                out.push(m);
                // non-canonical encodings a well-behaved writer never produces: the whole field replaced by a mask with zero
                // bytes behind set bits (longer than the canonical form of the same value), in three lengths
                for (what, rep) in [("mask 0x03 with a zero second byte", vec![0x03u8, 0x05, 0x00]), ("mask 0xff with eight zero bytes", vec![0xFF, 0, 0, 0, 0, 0, 0, 0, 0]), ("mask 0x81 with zero bytes", vec![0x81, 0x00, 0x00]), ("mask 0x00", vec![0x00])] {
                    let mut m = Mutation::base(f, "T8", format!("field#{} {} packed guid replaced by {}", fi, fld.path, what));
                    let delta = rep.len() as i64 - fld.len as i64;
                    m.plain.splice(fld.off..fld.off + fld.len, rep);
                    if let Some(cs) = m.comp_start {
                        if fld.off < cs {
                            m.comp_start = Some((cs as i64 + delta) as usize);
                        }
                    }
                    out.push(m);
                }
            }
            FKind::CString => {
                if fld.len >= 1 {
                    // missing NUL
                    let mut m = Mutation::base(f, "T7", format!("field#{} {} NUL removed", fi, fld.path));
                    m.plain[fld.off + fld.len - 1] = b'A';
                    out.push(m);
                    // invalid UTF-8
                    if fld.len >= 2 {
                        let mut m = Mutation::base(f, "T7", format!("field#{} {} invalid utf-8", fi, fld.path));
                        m.plain[fld.off] = 0xFF;
                        out.push(m);
                    }
                    // longer than 256 bytes (only outside compressed regions / when offsets after it do not matter)
                    let mut m = Mutation::base(f, "T7", format!("field#{} {} 300 bytes long", fi, fld.path));
                    let ins = vec![b'x'; 300];
                    m.plain.splice(fld.off..fld.off, ins);
                    if let Some(cs) = m.comp_start {
                        if fld.off < cs {
                            m.comp_start = Some(cs + 300);
                        }
                    }
                    out.push(m);
                    // the reader's length limit (256 bytes) from both sides, with and without a terminator: the whole field is replaced
                    for (what, n, nul) in [("255 bytes + NUL", 255usize, true), ("256 bytes + NUL", 256, true), ("257 bytes + NUL", 257, true), ("256 bytes, no NUL", 256, false)] {
                        let mut m = Mutation::base(f, "T7", format!("field#{} {} replaced by {}", fi, fld.path, what));
                        let mut rep = vec![b'y'; n];
                        if nul {
                            rep.push(0);
                        }
                        let delta = rep.len() as i64 - fld.len as i64;
                        m.plain.splice(fld.off..fld.off + fld.len, rep);
                        if let Some(cs) = m.comp_start {
                            if fld.off < cs {
                                m.comp_start = Some((cs as i64 + delta) as usize);
                            }
                        }
                        out.push(m);
                    }
                }
            }
            FKind::Str => {
                if fld.len >= 1 {
                    let mut m = Mutation::base(f, "T7", format!("field#{} {} invalid utf-8", fi, fld.path));
                    m.plain[fld.off] = 0xFF;
                    out.push(m);
                }
            }
            FKind::Builtin(name) => {
                if name.ends_with("Mask") && fld.len >= 2 {
                    // all pattern bits set and no data
                    let w = match name.as_str() {
                        "EnchantMask" => 2,
                        "AuraMask" => {
                            if fld.len >= 8 {
                                8
                            } else {
                                4
                            }
                        }
                        _ => 4,
                    };
                    let mut m = Mutation::base(f, "T8", format!("field#{} {} all mask bits set", fi, fld.path));
                    for i in 0..w.min(fld.len) {
                        m.plain[fld.off + i] = 0xFF;
                    }
                    out.push(m);
                }
                // saturated: the whole built-in replaced by a long run of 0xFF (every pattern bit of the built-in AND of every
                // mask nested inside it set, with enough bytes behind to satisfy all of them), and by a run of 0x80 / 0x7F
                if fld.len >= 1 {
                    for (what, byte, n) in [("0xFF x 6000", 0xFFu8, 6000usize), ("0xFF x 300", 0xFF, 300), ("0x80 x 600", 0x80, 600), ("0x7F x 600", 0x7F, 600)] {
                        let mut m = Mutation::base(f, "T8", format!("field#{} {} ({}) replaced by {}", fi, fld.path, name, what));
                        let delta = n as i64 - fld.len as i64;
                        m.plain.splice(fld.off..fld.off + fld.len, vec![byte; n]);
                        if let Some(cs) = m.comp_start {
                            if fld.off < cs {
                                m.comp_start = Some((cs as i64 + delta) as usize);
                            }
                        }
                        out.push(m);
                    }
                }
                if name.starts_with("Achievement") && fld.len >= 4 {
                    // no sentinel: drop the last 4 bytes of the field
                    let mut m = Mutation::base(f, "T8", format!("field#{} {} sentinel removed", fi, fld.path));
                    let end = fld.off + fld.len;
                    m.plain.drain(end - 4..end);
                    if let Some(cs) = m.comp_start {
                        if end <= cs {
                            m.comp_start = Some(cs - 4);
                        }
                    }
                    out.push(m);
                }
                if name == "NamedGuid" && fld.len == 8 {
                    // non-zero guid without a name
                    let mut m = Mutation::base(f, "T8", format!("field#{} {} non-zero without name", fi, fld.path));
                    m.plain[fld.off] = 1;
                    out.push(m);
                }
            }
            FKind::Float => {
                set("T3", "nan", 0x7FC0_0001, &mut out);
            }
            FKind::Int | FKind::Guid | FKind::Const => {}
        }
    }
    out
}

fn short_kind(k: &FKind) -> String {
    match k {
        FKind::Enum { definer, .. } => format!("Enum {}", definer),
        FKind::Flag { definer, .. } => format!("Flag {}", definer),
        FKind::Count { of } => format!("Count of {}", of),
        other => format!("{:?}", other),
    }
}

/// T1: truncate at each field boundary and inside one field; both variants (stream ends early / header says smaller)
pub fn truncations(f: &Frame, world: bool) -> Vec<Mutation> {
    let mut cuts: Vec<usize> = f.fields.iter().map(|x| x.off).collect();
    for x in &f.fields {
        if x.len > 1 {
            cuts.push(x.off + x.len / 2);
        }
    }
    cuts.push(f.plain.len().saturating_sub(1));
    cuts.sort();
    cuts.dedup();
    cuts.retain(|c| *c < f.plain.len());
    let mut out = Vec::new();
    for c in cuts {
        if f.comp_start.map(|cs| c > cs).unwrap_or(false) {
            // inside the compressed region: cut the logical payload (re-compressed, consistent header)
            let mut m = Mutation::base(f, "T1", format!("payload cut at {} (inside compressed region)", c));
            m.plain.truncate(c);
            out.push(m);
            continue;
        }
        if world {
            // header consistent with the shorter body
            let mut m = Mutation::base(f, "T1", format!("body cut at {}, header adjusted", c));
            m.plain.truncate(c);
            if let Some(cs) = m.comp_start {
                if c <= cs {
                    m.comp_start = None;
                }
            }
            out.push(m);
        }
        // stream ends early
        let mut m = Mutation::base(f, "T1", format!("stream ends after {} body bytes", c));
        m.cut_stream_at = Some(c);
        out.push(m);
    }
    out
}

/// T11: header forms and size values no well-behaved writer produces: a size smaller than the opcode it has to include
/// (0, 1, ... in the 2-byte form) and, for Wrath server messages, the 3-byte form carrying a small size (0, 1, 2, 3, the
/// largest 2-byte value) or the largest 3-byte value
pub fn header_mutations(f: &Frame, exp: Exp, dir: Dir) -> Vec<Mutation> {
    let mut out = Vec::new();
    let opcode_len: u16 = if dir == Dir::Client { 4 } else { 2 };
    let mut raws: Vec<(String, Vec<u8>)> = Vec::new();
    for v in 0..=opcode_len {
        raws.push((format!("2-byte size field = {}", v), v.to_be_bytes().to_vec()));
    }
    raws.push(("2-byte size field = 0xFFFF".into(), vec![0xFF, 0xFF]));
    if exp == Exp::Wrath && dir == Dir::Server {
        raws.pop();
        raws.push(("2-byte size field = 0x7FFF".into(), vec![0x7F, 0xFF]));
        for v in [0u32, 1, 2, 3, 4, 0x7FFF, 0x8000, 0x7F_FFFF] {
            raws.push((format!("3-byte size form carrying {:#x}", v), vec![0x80 | (v >> 16) as u8, (v >> 8) as u8, v as u8]));
        }
    }
    for (what, raw) in raws {
        for with_body in [true, false] {
            let mut m = Mutation::base(f, "T11", format!("header: {}{}", what, if with_body { "" } else { ", nothing after the header" }));
            m.raw_size_bytes = Some(raw.clone());
            if !with_body {
                m.plain.clear();
                m.comp_start = None;
            }
            out.push(m);
        }
    }
    out
}

/// T10: two structured faults at once - a string or count fault in one field AND the body ending (header consistent) at a
/// later field boundary, in particular at the start of a trailing variable part. Size accounting that runs ahead of the
/// reader only shows when nothing is left to absorb the difference.
pub fn pair_mutations(f: &Frame, limit: usize) -> Vec<Mutation> {
    let mut out = Vec::new();
    let firsts = field_mutations(f);
    let mut bounds: Vec<usize> = f.fields.iter().map(|x| x.off).collect();
    if let Some(cs) = f.comp_start {
        bounds.push(cs);
    }
    bounds.push(f.plain.len());
    bounds.sort();
    bounds.dedup();
    for a in firsts.iter().filter(|a| a.kind == "T7" || a.kind == "T2") {
        // the field the first fault sits in
        let Some(fi) = a.desc.strip_prefix("field#").and_then(|r| r.split(' ').next()).and_then(|n| n.parse::<usize>().ok()) else { continue };
        let Some(fld) = f.fields.get(fi) else { continue };
        let delta = a.plain.len() as i64 - f.plain.len() as i64;
        for b in bounds.iter().filter(|b| **b >= fld.off + fld.len) {
            let cut = *b as i64 + delta;
            if cut < 0 || cut as usize > a.plain.len() {
                continue;
            }
            let cut = cut as usize;
            if cut == a.plain.len() && f.comp_start.is_none() {
                continue; // nothing cut: that is the single fault itself
            }
            let mut m = a.clone();
            m.kind = "T10";
            m.desc = format!("{} + body ends at offset {} (header adjusted)", a.desc, b);
            m.plain.truncate(cut);
            if let Some(cs) = m.comp_start {
                if cut as i64 <= cs as i64 + delta {
                    m.comp_start = None;
                }
            }
            out.push(m);
        }
    }
    if out.len() > limit {
        // keep an even spread
        let n = out.len();
        out = (0..limit).map(|i| out[i * n / limit].clone()).collect();
    }
    out
}

/// T4..T6, T9: sampled mutations
pub fn random_mutation(f: &Frame, rng: &mut Rng, world: bool) -> Mutation {
    let choice = rng.below(10);
    match choice {
        0 | 1 if f.comp_start.is_some() => {
            // T4: corrupt the compressed payload on the wire
            let cs = f.comp_start.unwrap();
            let mut wire = f.wire_body();
            let zlen = wire.len() - cs;
            if rng.chance(1, 40) && cs >= 4 {
                // decompression bomb: a ~1.2 MB stream that expands to 1.25 GiB while the size field announces little
                wire.truncate(cs);
                let announced: u32 = *rng.pick(&[16u32, 0x1000, 0x7F_FFFF]);
                wire[cs - 4..cs].copy_from_slice(&announced.to_le_bytes());
                wire.extend_from_slice(zlib_bomb());
                let mut m = Mutation::base(f, "T4", format!("zlib bomb (1.25 GiB of zeros) behind a decompressed_size of {}", announced));
                m.wire_body = Some(wire);
                return m;
            }
            let what = rng.below(5);
            let desc;
            match what {
                0 if zlen > 0 => {
                    let p = cs + rng.below(zlen as u64) as usize;
                    wire[p] ^= 1 << rng.below(8);
                    desc = format!("zlib byte {} flipped", p - cs);
                }
                1 if zlen > 1 => {
                    let keep = rng.below(zlen as u64) as usize;
                    wire.truncate(cs + keep);
                    desc = format!("zlib stream truncated to {} bytes", keep);
                }
                2 => {
                    wire.truncate(cs);
                    desc = "zlib stream removed".to_string();
                }
                3 => {
                    // valid zlib of garbage
                    let mut g = vec![0u8; 1 + rng.below(64) as usize];
                    rng.fill(&mut g);
                    wire.truncate(cs);
                    wire.extend_from_slice(&zlib(&g));
                    desc = format!("valid zlib of {} garbage bytes", g.len());
                }
                _ => {
                    let mut g = vec![0u8; 1 + rng.below(32) as usize];
                    rng.fill(&mut g);
                    wire.truncate(cs);
                    wire.extend_from_slice(&g);
                    desc = "random bytes instead of zlib".to_string();
                }
            }
            let mut m = Mutation::base(f, "T4", desc);
            m.wire_body = Some(wire);
            m
        }
        2 | 3 if world => {
            // T5: header lies
            let d: i64 = *rng.pick(&[-1i64, 1, -2, 2, 4, -4, 100, -100, 0x8000, 0x10000]);
            let mut m = Mutation::base(f, "T5", format!("header size field off by {}", d));
            m.size_delta = d;
            m
        }
        4 | 5 => {
            // T6: bit flips anywhere
            let mut m = Mutation::base(f, "T6", String::new());
            let n = 1 + rng.below(4);
            let mut ds = Vec::new();
            if !m.plain.is_empty() {
                for _ in 0..n {
                    let p = rng.below(m.plain.len() as u64) as usize;
                    let b = rng.below(8);
                    m.plain[p] ^= 1 << b;
                    ds.push(format!("{}.{}", p, b));
                }
            }
            m.desc = format!("bit flips at {}", ds.join(","));
            m
        }
        6 => {
            // T6: random body of random length
            let mut m = Mutation::base(f, "T6", String::new());
            let n = match rng.below(4) {
                0 => 0,
                1 => rng.below(8) as usize,
                2 => f.plain.len(),
                _ => rng.below(2 * f.plain.len() as u64 + 16) as usize,
            };
            let keep = if world { 0 } else { 1.min(f.plain.len()) };
            m.plain.truncate(keep);
            let mut g = vec![0u8; n];
            rng.fill(&mut g);
            m.plain.extend_from_slice(&g);
            m.comp_start = None;
            m.desc = format!("random body of {} bytes", n);
            m
        }
        _ => {
            // T9: combination of two or three field mutations / truncation
            let fm = field_mutations(f);
            if fm.is_empty() {
                let mut m = Mutation::base(f, "T9", "no fields".into());
                m.cut_stream_at = Some(rng.below(f.plain.len() as u64 + 1) as usize);
                return m;
            }
            let mut m = Mutation::base(f, "T9", String::new());
            let k = 2 + rng.below(2);
            let mut ds = Vec::new();
            for _ in 0..k {
                let x = rng.pick(&fm);
                if x.plain.len() == m.plain.len() {
                    // overlay the differing bytes
                    for (i, (a, b)) in x.plain.iter().zip(f.plain.iter()).enumerate() {
                        if a != b {
                            m.plain[i] = *a;
                        }
                    }
                    ds.push(x.desc.clone());
                }
            }
            if rng.chance(1, 3) {
                let c = rng.below(m.plain.len() as u64 + 1) as usize;
                m.cut_stream_at = Some(c);
                ds.push(format!("stream cut at {}", c));
            }
            m.desc = ds.join(" + ");
            m
        }
    }
}

/// T4, enumerated: one mutation per kind of compressed-payload corruption
pub fn compressed_mutations(f: &Frame) -> Vec<Mutation> {
    let Some(cs) = f.comp_start else { return Vec::new() };
    if cs < 4 {
        return Vec::new();
    }
    let wire = f.wire_body();
    let zlen = wire.len() - cs;
    let mut out = Vec::new();
    let mut mk = |desc: String, w: Vec<u8>| {
        let mut m = Mutation::base(f, "T4", desc);
        m.wire_body = Some(w);
        out.push(m);
    };
    if zlen > 2 {
        for p in [cs, cs + 1, cs + zlen / 2, cs + zlen - 1] {
            let mut w = wire.clone();
            w[p] ^= 0x10;
            mk(format!("zlib byte {} flipped", p - cs), w);
        }
        for keep in [1usize, zlen / 2, zlen - 1] {
            let mut w = wire.clone();
            w.truncate(cs + keep);
            mk(format!("zlib stream truncated to {} bytes", keep), w);
        }
    }
    let mut w = wire.clone();
    w.truncate(cs);
    mk("zlib stream removed".into(), w.clone());
    let mut g = w.clone();
    g.extend_from_slice(&zlib(&[0xAB; 40]));
    mk("valid zlib of 40 garbage bytes".into(), g);
    let mut g = w.clone();
    g.extend_from_slice(&[0x78, 0x9c, 0xff, 0xff, 0x00, 0x01, 0x02]);
    mk("broken deflate block".into(), g);
    for announced in [16u32, 0x7F_FFFF] {
        let mut b = w.clone();
        b[cs - 4..cs].copy_from_slice(&announced.to_le_bytes());
        b.extend_from_slice(zlib_bomb());
        mk(format!("zlib bomb (1.25 GiB of zeros) behind a decompressed_size of {}", announced), b);
    }
    out
}

/// a zlib stream of 1.25 GiB of zeros, built once per process
pub fn zlib_bomb() -> &'static [u8] {
    use std::io::Write;
    static BOMB: std::sync::OnceLock<Vec<u8>> = std::sync::OnceLock::new();
    BOMB.get_or_init(|| {
        let mut e = flate2::write::ZlibEncoder::new(Vec::new(), flate2::Compression::fast());
        let chunk = vec![0u8; 1 << 20];
        for _ in 0..1280 {
            e.write_all(&chunk).unwrap();
        }
        e.finish().unwrap()
    })
}

/// final world stream for a mutation
pub fn assemble_world(exp: Exp, dir: Dir, opcode: u32, m: &Mutation) -> Vec<u8> {
    let body = m.body();
    let announced = (body.len() as i64 + m.size_delta).max(0) as usize;
    let mut s = world_header(exp, dir, opcode, announced);
    if let Some(raw) = &m.raw_size_bytes {
        // header forms and size values a well-behaved writer never produces
        s = raw.clone();
        match dir {
            Dir::Client => s.extend_from_slice(&opcode.to_le_bytes()),
            Dir::Server => s.extend_from_slice(&(opcode as u16).to_le_bytes()),
        }
    }
    let hl = s.len();
    s.extend_from_slice(&body);
    if let Some(c) = m.cut_stream_at {
        s.truncate((hl + c).min(s.len()));
    }
    s
}

/// final login stream for a mutation (plain includes the opcode byte)
pub fn assemble_login(m: &Mutation) -> Vec<u8> {
    let mut s = m.plain.clone();
    if let Some(c) = m.cut_stream_at {
        s.truncate(c.min(s.len()));
    }
    s
}
