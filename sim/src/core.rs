//! Common machinery: scenarios, outcomes, supervisor + worker processes, crash attribution,
//! shrinking, replay files, known findings, evidence.

use crate::rng::{run_seed, Fnv};
use serde::{Deserialize, Serialize};
use serde_json::{json, Value};
use std::collections::{BTreeMap, BTreeSet, HashSet};
use std::io::Write;
use std::path::{Path, PathBuf};
use std::process::{Child, Command, Stdio};
use std::time::{Duration, Instant};

pub const MEM_BUDGET: usize = 1 << 30; // 1 GiB above the worker's baseline (DESIGN.md C03)
pub const MEM_HARD_CEILING: usize = 6 << 30;

#[derive(Clone, Copy, PartialEq, Eq, Debug)]
pub enum Tier {
    Quick,
    Thorough,
}
impl Tier {
    pub fn name(self) -> &'static str {
        match self {
            Tier::Quick => "quick",
            Tier::Thorough => "thorough",
        }
    }
}

#[derive(Clone, Debug, Serialize, Deserialize, PartialEq)]
pub struct Violation {
    pub oracle: String,
    /// stable signature used for known-findings matching and for "same violation class" during shrinking
    pub sig: String,
    pub detail: String,
}

#[derive(Clone, Debug, Default)]
pub struct Outcome {
    pub violations: Vec<Violation>,
    pub log_hash: u64,
    pub nontrivial: bool,
    pub counters: BTreeMap<String, u64>,
    pub ticks: u64,
    pub bytes: u64,
}
impl Outcome {
    pub fn count(&mut self, k: &str, n: u64) {
        if n > 0 {
            *self.counters.entry(k.to_string()).or_insert(0) += n;
        }
    }
    pub fn violate(&mut self, oracle: &str, sig: String, detail: String) {
        self.violations.push(Violation { oracle: oracle.to_string(), sig, detail });
    }
}

pub trait Check: Sync {
    fn id(&self) -> &'static str;
    /// does the property judged by this check bound the memory a scenario may use? (C03 only)
    fn judges_memory_budget(&self) -> bool {
        false
    }
    fn level(&self) -> &'static str;
    fn rule(&self) -> String;
    fn assumptions(&self) -> Vec<String>;
    fn components(&self) -> Value;
    /// number of runs in the deterministic enumeration part (indices 0..n) and sampled part
    fn plan(&self, tier: Tier) -> (u64, u64);
    /// scenario for run i; must be a pure function of (i, seed) and the wowm corpus, and must not call library code
    fn gen(&self, i: u64, seed: u64, tier: Tier) -> Value;
    /// execute a scenario against the real code; deterministic
    fn exec(&self, scenario: &Value) -> Outcome;
    /// smaller variants of a scenario (for delta debugging)
    fn shrink(&self, scenario: &Value) -> Vec<Value>;
    /// reduce `sc` to the ingredients of an already minimised scenario (shortcut for repeated causes)
    fn restrict(&self, _sc: &Value, _other: &Value) -> Option<Value> {
        None
    }
    /// extra evidence keys computed by the supervisor process (e.g. calibration)
    fn extra_evidence(&self) -> Value {
        json!({})
    }
}

// ---------------------------------------------------------------------------------------------
// panic capture

thread_local! {
    pub static LAST_PANIC: std::cell::RefCell<Option<(String, String)>> = const { std::cell::RefCell::new(None) };
}

pub fn install_panic_hook() {
    std::panic::set_hook(Box::new(|info| {
        let loc = info.location().map(|l| format!("{}:{}", l.file(), l.line())).unwrap_or_default();
        let msg = if let Some(s) = info.payload().downcast_ref::<&str>() {
            s.to_string()
        } else if let Some(s) = info.payload().downcast_ref::<String>() {
            s.clone()
        } else {
            "?".into()
        };
        LAST_PANIC.with(|p| *p.borrow_mut() = Some((msg.replace('\n', " "), loc)));
    }));
}

pub fn take_panic() -> (String, String) {
    LAST_PANIC.with(|p| p.borrow_mut().take()).unwrap_or_else(|| ("?".into(), "?".into()))
}

/// normalise a panic into a signature that survives line shifts: file + message with digits squashed
pub fn panic_sig(msg: &str, loc: &str) -> String {
    let file = loc.rsplit_once(':').map(|x| x.0).unwrap_or(loc);
    let file = file.strip_prefix(&format!("{}/", crate::umask::repo_root())).unwrap_or(file);
    let mut m = String::new();
    let mut last_digit = false;
    for c in msg.chars().take(60) {
        if c.is_ascii_digit() {
            if !last_digit {
                m.push('N');
            }
            last_digit = true;
        } else {
            m.push(c);
            last_digit = false;
        }
    }
    format!("panic:{}:{}", file, m.trim())
}

/// run `f` under catch_unwind; a panic whose location is not under the repository is a harness error
pub fn guarded<T>(f: impl FnOnce() -> T) -> Result<T, (String, String)> {
    match std::panic::catch_unwind(std::panic::AssertUnwindSafe(f)) {
        Ok(v) => Ok(v),
        Err(_) => Err(take_panic()),
    }
}

pub fn is_repo_location(loc: &str) -> bool {
    loc.starts_with(&crate::umask::repo_root()) || loc.contains("/wow_srp-") || loc.contains("/flate2-") || loc.contains("/rustc/") || loc.contains("/library/")
}

// ---------------------------------------------------------------------------------------------
// known findings

#[derive(Clone, Debug, Deserialize, Serialize)]
pub struct KnownFinding {
    pub property: String,
    /// substring that must occur in the violation signature
    pub sig: String,
    pub what: String,
    #[serde(default)]
    pub status: String, // "known" or "fixed: <commit>"
}

pub fn verif_dir() -> PathBuf {
    std::env::var("VERIF_DIR").map(PathBuf::from).unwrap_or_else(|_| PathBuf::from("/verif"))
}

pub fn load_known(prop: &str) -> Vec<KnownFinding> {
    let p = verif_dir().join("known_findings.json");
    let Ok(s) = std::fs::read_to_string(&p) else { return vec![] };
    let all: Vec<KnownFinding> = match serde_json::from_str(&s) {
        Ok(v) => v,
        Err(e) => {
            eprintln!("HARNESS ERROR: known_findings.json: {}", e);
            std::process::exit(2);
        }
    };
    all.into_iter().filter(|k| k.property == prop && k.status.starts_with("known")).collect()
}

// ---------------------------------------------------------------------------------------------
// worker

fn crumb(f: &mut std::fs::File, s: &str) {
    use std::os::unix::fs::FileExt;
    let mut line = format!("{:<40}\n", s);
    line.truncate(41);
    let _ = f.write_at(line.as_bytes(), 0);
}

#[derive(Serialize, Deserialize, Default)]
pub struct WorkerDone {
    pub runs: u64,
    pub nontrivial: u64,
    pub counters: BTreeMap<String, u64>,
    pub ticks: u64,
    pub bytes: u64,
    pub samples: Vec<Value>,
    pub log_digest: u64,
}

pub fn exec_guarded(check: &dyn Check, sc: &Value) -> Outcome {
    let base = crate::alloc::arm(MEM_HARD_CEILING);
    let r = guarded(|| check.exec(sc));
    let mem = crate::alloc::disarm(base);
    let mut o = match r {
        Ok(o) => o,
        Err((msg, loc)) => {
            let mut o = Outcome::default();
            if is_repo_location(&loc) {
                o.violate("no_panic", panic_sig(&msg, &loc), format!("panic '{}' at {}", msg, loc));
            } else {
                o.violate("HARNESS", format!("harness-panic:{}", loc), format!("harness panic '{}' at {}", msg, loc));
            }
            o
        }
    };
    o.counters.insert("mem_peak_max".into(), mem.peak_above_base as u64);
    if mem.largest > MEM_BUDGET || mem.peak_above_base > MEM_BUDGET {
        let what = sc.get("label").and_then(|v| v.as_str()).unwrap_or("?").to_string();
        if !check.judges_memory_budget() {
            // "memory in proportion to the frame" is part of C03's statement only; elsewhere it is counted, not judged
            o.count("scenarios_over_memory_budget_not_judged", 1);
            return o;
        }
        o.violate("memory_budget", format!("alloc:{}", what), format!("largest single request {} bytes, peak {} bytes above baseline while executing one scenario (budget {})", mem.largest, mem.peak_above_base, MEM_BUDGET));
    }
    o
}

pub fn worker_main(check: &dyn Check, tier: Tier, seed: u64, shard: u64, nshards: u64, start: u64, out_prefix: &str) {
    let (n_enum, n_samp) = check.plan(tier);
    let total = n_enum + n_samp;
    let mut crumbf = std::fs::OpenOptions::new().create(true).write(true).open(format!("{}.crumb", out_prefix)).unwrap();
    let mut res = std::fs::OpenOptions::new().create(true).append(true).open(format!("{}.res", out_prefix)).unwrap();
    let mut hashes = std::io::BufWriter::new(std::fs::OpenOptions::new().create(true).append(true).open(format!("{}.hashes", out_prefix)).unwrap());
    {
        use std::os::unix::io::AsRawFd;
        // allocation refusals are appended to the result file with a raw write
        crate::alloc::set_report_fd(res.as_raw_fd());
    }
    let mut done = WorkerDone::default();
    let mut i = start;
    // align to shard
    while i % nshards != shard {
        i += 1;
    }
    let deadline_probe = std::env::var("VERIF_MAX_RUNS").ok().and_then(|s| s.parse::<u64>().ok());
    while i < total {
        if let Some(m) = deadline_probe {
            if done.runs >= m {
                break;
            }
        }
        crumb(&mut crumbf, &format!("{}", i));
        let rs = run_seed(seed, check.id(), i);
        let sc = check.gen(i, rs, tier);
        let o = exec_guarded(check, &sc);
        done.runs += 1;
        done.ticks += o.ticks;
        done.bytes += o.bytes;
        for (k, v) in &o.counters {
            if k.ends_with("_max") {
                let e = done.counters.entry(k.clone()).or_insert(0);
                *e = (*e).max(*v);
            } else {
                *done.counters.entry(k.clone()).or_insert(0) += v;
            }
        }
        let mut h = Fnv::new();
        h.u64(i);
        h.u64(o.log_hash);
        h.u64(o.violations.len() as u64);
        done.log_digest ^= h.0;
        if o.nontrivial {
            done.nontrivial += 1;
            let _ = hashes.write_all(&o.log_hash.to_le_bytes());
        }
        if done.samples.len() < 3 && (o.nontrivial || i < 3) {
            done.samples.push(truncate_sample(&sc));
        }
        if !o.violations.is_empty() {
            let line = json!({"v": {"index": i, "run_seed": rs, "scenario": sc, "violations": o.violations}});
            let _ = writeln!(res, "{}", line);
        }
        if done.runs % 16 == 0 {
            // cumulative checkpoint of this incarnation (survives a later process death)
            let _ = hashes.flush();
            let _ = writeln!(res, "{}", json!({"ckpt": start, "done": done}));
        }
        i += nshards;
    }
    crumb(&mut crumbf, "DONE");
    let _ = hashes.flush();
    let _ = writeln!(res, "{}", json!({"ckpt": start, "done": done}));
}

fn truncate_sample(v: &Value) -> Value {
    match v {
        Value::String(s) if s.len() > 160 => Value::String(format!("{}...({} chars)", &s[..160], s.len())),
        Value::Array(a) => Value::Array(a.iter().take(12).map(truncate_sample).collect()),
        Value::Object(o) => Value::Object(o.iter().map(|(k, v)| (k.clone(), truncate_sample(v))).collect()),
        _ => v.clone(),
    }
}

// ---------------------------------------------------------------------------------------------
// supervisor

struct W {
    shard: u64,
    child: Child,
    prefix: String,
    last_crumb: String,
    last_change: Instant,
    /// CPU time (clock ticks) the worker had consumed when its crumb last changed
    cpu_at_change: u64,
    deaths: u64,
}

/// user+system CPU time of a process in clock ticks (0 if unknown). The watchdog is based on CPU time consumed
/// without progress, not on wall-clock time, so that a worker starved by other load is never mistaken for a hang.
fn cpu_ticks(pid: u32) -> u64 {
    let Ok(s) = std::fs::read_to_string(format!("/proc/{}/stat", pid)) else { return 0 };
    let Some(rest) = s.rsplit_once(") ").map(|x| x.1) else { return 0 };
    let f: Vec<&str> = rest.split_whitespace().collect();
    // fields after the command: state(0) ... utime is field 14 overall -> index 11 here, stime index 12
    let u: u64 = f.get(11).and_then(|x| x.parse().ok()).unwrap_or(0);
    let st: u64 = f.get(12).and_then(|x| x.parse().ok()).unwrap_or(0);
    u + st
}

fn spawn_worker(id: &str, tier: Tier, seed: u64, shard: u64, n: u64, start: u64, prefix: &str) -> Child {
    let exe = std::env::current_exe().unwrap();
    Command::new(exe)
        .args(["worker", id, tier.name(), &seed.to_string(), &shard.to_string(), &n.to_string(), &start.to_string(), prefix])
        .stdin(Stdio::null())
        .stdout(Stdio::null())
        .stderr(Stdio::null())
        .spawn()
        .expect("spawn worker")
}

fn read_crumb(prefix: &str) -> String {
    std::fs::read_to_string(format!("{}.crumb", prefix)).unwrap_or_default().trim().to_string()
}

pub struct Found {
    pub index: u64,
    pub run_seed: u64,
    pub scenario: Value,
    pub violations: Vec<Violation>,
}

pub struct RunSummary {
    pub found: Vec<Found>,
    pub done: WorkerDone,
    pub distinct_nontrivial: u64,
    pub worker_deaths: u64,
    pub wall_s: f64,
    pub jobs: u64,
}

pub fn work_dir() -> PathBuf {
    let d = verif_dir().join("work");
    let _ = std::fs::create_dir_all(&d);
    d
}

pub fn run_workers(check: &dyn Check, tier: Tier, seed: u64, jobs: u64) -> RunSummary {
    let t0 = Instant::now();
    let id = check.id();
    let tag = format!("{}-{}-{}-{}", id, tier.name(), seed, std::process::id());
    let dir = work_dir().join(&tag);
    let _ = std::fs::remove_dir_all(&dir);
    std::fs::create_dir_all(&dir).unwrap();
    let watchdog = Duration::from_secs(std::env::var("VERIF_WATCHDOG_S").ok().and_then(|s| s.parse().ok()).unwrap_or(30));
    let mut ws: Vec<W> = (0..jobs)
        .map(|s| {
            let prefix = dir.join(format!("w{}", s)).display().to_string();
            let child = spawn_worker(id, tier, seed, s, jobs, 0, &prefix);
            W { shard: s, child, prefix, last_crumb: String::new(), last_change: Instant::now(), cpu_at_change: 0, deaths: 0 }
        })
        .collect();
    let mut found: Vec<Found> = Vec::new();
    let mut deaths = 0u64;
    let mut active = ws.len();
    let mut finished = vec![false; ws.len()];
    while active > 0 {
        std::thread::sleep(Duration::from_millis(50));
        for (wi, w) in ws.iter_mut().enumerate() {
            if finished[wi] {
                continue;
            }
            let c = read_crumb(&w.prefix);
            if c != w.last_crumb {
                w.last_crumb = c.clone();
                w.last_change = Instant::now();
                w.cpu_at_change = cpu_ticks(w.child.id());
            }
            let status = w.child.try_wait().ok().flatten();
            // hung = no progress while the worker itself burned `watchdog` seconds of CPU (100 ticks per second)
            let burned = cpu_ticks(w.child.id()).saturating_sub(w.cpu_at_change);
            let hung = status.is_none() && !w.last_crumb.is_empty() && w.last_change.elapsed() > watchdog && burned > watchdog.as_secs() * 100;
            if hung {
                let _ = w.child.kill();
                let _ = w.child.wait();
            }
            if status.is_some() || hung {
                let crumb_now = read_crumb(&w.prefix);
                if crumb_now == "DONE" && status.map(|s| s.success()).unwrap_or(false) {
                    finished[wi] = true;
                    active -= 1;
                    continue;
                }
                // the worker died while executing run `crumb_now`
                deaths += 1;
                w.deaths += 1;
                let how = if hung {
                    "hang (no progress within the watchdog interval; killed)".to_string()
                } else {
                    use std::os::unix::process::ExitStatusExt;
                    let st = status.unwrap();
                    match st.signal() {
                        Some(sig) => format!("killed by signal {}", sig),
                        None => format!("exit status {:?}", st.code()),
                    }
                };
                let idx: Option<u64> = crumb_now.parse().ok();
                match idx {
                    Some(i) if w.deaths <= 200 => {
                        let rs = run_seed(seed, id, i);
                        let sc = check.gen(i, rs, tier);
                        // allocation refusal marker left in the result file?
                        let res_txt = std::fs::read_to_string(format!("{}.res", w.prefix)).unwrap_or_default();
                        let alloc = res_txt.lines().rev().find(|l| l.starts_with("ALLOC ")).map(|l| l.to_string());
                        let label = sc.get("label").and_then(|v| v.as_str()).unwrap_or("?").to_string();
                        let (oracle, sig, detail) = if hung {
                            ("bounded_liveness", format!("hang:{}", label), format!("worker burned more than {:?} of CPU time without finishing run {}", watchdog, i))
                        } else if let Some(a) = alloc {
                            ("memory_budget", format!("alloc-abort:{}", label), format!("process aborted after allocation request '{}' ({}) in run {}", a, how, i))
                        } else {
                            ("no_abort", format!("abort:{}", label), format!("worker process died: {} in run {}", how, i))
                        };
                        // forget the marker so that it is not attributed twice
                        let cleaned: String = res_txt.lines().filter(|l| !l.starts_with("ALLOC ")).map(|l| format!("{}\n", l)).collect();
                        let _ = std::fs::write(format!("{}.res", w.prefix), cleaned);
                        found.push(Found { index: i, run_seed: rs, scenario: sc, violations: vec![Violation { oracle: oracle.into(), sig, detail }] });
                        // restart after i
                        w.child = spawn_worker(id, tier, seed, w.shard, jobs, i + 1, &w.prefix);
                        w.last_crumb = String::new();
                        w.last_change = Instant::now();
                        w.cpu_at_change = 0;
                    }
                    _ => {
                        eprintln!("HARNESS ERROR: worker {} died ({}) with crumb '{}' (deaths {})", w.shard, how, crumb_now, w.deaths);
                        std::process::exit(2);
                    }
                }
            }
        }
    }
    // collect
    let mut done = WorkerDone::default();
    let mut set: HashSet<u64> = HashSet::new();
    for w in &ws {
        let txt = std::fs::read_to_string(format!("{}.res", w.prefix)).unwrap_or_default();
        // last checkpoint of every incarnation of this worker
        let mut last_ckpt: BTreeMap<u64, Value> = BTreeMap::new();
        for l in txt.lines() {
            let Ok(v) = serde_json::from_str::<Value>(l) else { continue };
            if let (Some(k), Some(d)) = (v.get("ckpt").and_then(|x| x.as_u64()), v.get("done")) {
                last_ckpt.insert(k, d.clone());
            }
        }
        let ckpts: Vec<Value> = last_ckpt.into_values().map(|d| json!({"done": d})).collect();
        let lines: Vec<Value> = txt.lines().filter_map(|l| serde_json::from_str::<Value>(l).ok()).filter(|v| v.get("ckpt").is_none()).chain(ckpts.into_iter()).collect();
        for v in lines {
            if let Some(d) = v.get("done") {
                let d: WorkerDone = serde_json::from_value(d.clone()).unwrap_or_default();
                done.runs += d.runs;
                done.nontrivial += d.nontrivial;
                done.ticks += d.ticks;
                done.bytes += d.bytes;
                done.log_digest ^= d.log_digest;
                for (k, v) in d.counters {
                    if k.ends_with("_max") {
                        let e = done.counters.entry(k).or_insert(0);
                        *e = (*e).max(v);
                    } else {
                        *done.counters.entry(k).or_insert(0) += v;
                    }
                }
                if done.samples.len() < 3 {
                    done.samples.extend(d.samples.into_iter().take(3 - done.samples.len()));
                }
            } else if let Some(f) = v.get("v") {
                found.push(Found {
                    index: f["index"].as_u64().unwrap_or(0),
                    run_seed: f["run_seed"].as_u64().unwrap_or(0),
                    scenario: f["scenario"].clone(),
                    violations: serde_json::from_value(f["violations"].clone()).unwrap_or_default(),
                });
            }
        }
        if let Ok(b) = std::fs::read(format!("{}.hashes", w.prefix)) {
            for c in b.chunks_exact(8) {
                set.insert(u64::from_le_bytes(c.try_into().unwrap()));
            }
        }
    }
    found.sort_by_key(|f| f.index);
    let _ = std::fs::remove_dir_all(&dir);
    RunSummary { found, done, distinct_nontrivial: set.len() as u64, worker_deaths: deaths, wall_s: t0.elapsed().as_secs_f64(), jobs }
}

// ---------------------------------------------------------------------------------------------
// shrinking (delta debugging on the scenario) and replay files

/// signatures that embed the scenario label are compared by class (their prefix) while shrinking
pub fn label_class(sig: &str) -> Option<&'static str> {
    ["abort:", "alloc-abort:", "hang:", "alloc:"].into_iter().find(|p| sig.starts_with(p))
}

fn same_class(a: &[Violation], sig: &str) -> bool {
    match label_class(sig) {
        Some(p) => a.iter().any(|v| v.sig.starts_with(p)),
        None => a.iter().any(|v| v.sig == sig),
    }
}

/// execute one scenario in a child process (used when the violation kills the process)
pub fn exec_in_child(id: &str, sc: &Value) -> Vec<Violation> {
    let dir = work_dir();
    let p = dir.join(format!("one-{}-{}.json", std::process::id(), crate::rng::fnv1a(sc.to_string().as_bytes())));
    std::fs::write(&p, sc.to_string()).unwrap();
    let exe = std::env::current_exe().unwrap();
    // the child is watched like a worker: CPU time without finishing, not wall time, decides that it hangs
    let limit_s = env_u64("VERIF_CHILD_WATCHDOG_S", 8);
    let outp = dir.join(format!("one-{}-{}.out", std::process::id(), crate::rng::fnv1a(sc.to_string().as_bytes())));
    let out = (|| -> std::io::Result<std::process::Output> {
        let f = std::fs::File::create(&outp)?;
        let mut child = Command::new(exe).args(["exec-one", id, &p.display().to_string()]).stdin(Stdio::null()).stderr(Stdio::null()).stdout(f).spawn()?;
        let started = Instant::now();
        loop {
            if let Some(status) = child.try_wait()? {
                let stdout = std::fs::read(&outp).unwrap_or_default();
                return Ok(std::process::Output { status, stdout, stderr: Vec::new() });
            }
            if started.elapsed() > Duration::from_secs(limit_s) && cpu_ticks(child.id()) > limit_s * 100 {
                let _ = child.kill();
                let status = child.wait()?;
                return Ok(std::process::Output { status, stdout: b"HUNG\n".to_vec(), stderr: Vec::new() });
            }
            std::thread::sleep(Duration::from_millis(if started.elapsed() < Duration::from_millis(200) { 2 } else { 25 }));
        }
    })();
    let _ = std::fs::remove_file(&p);
    let _ = std::fs::remove_file(&outp);
    match out {
        Ok(o) => {
            let txt = String::from_utf8_lossy(&o.stdout).to_string();
            if let Some(l) = txt.lines().find(|l| l.starts_with("OUTCOME ")) {
                serde_json::from_str(&l[8..]).unwrap_or_default()
            } else if txt.starts_with("HUNG") {
                let label = sc.get("label").and_then(|v| v.as_str()).unwrap_or("?").to_string();
                vec![Violation { oracle: "bounded_liveness".into(), sig: format!("hang:{}", label), detail: format!("the scenario burned more than {} s of CPU time in a fresh process without finishing; killed", limit_s) }]
            } else {
                use std::os::unix::process::ExitStatusExt;
                let label = sc.get("label").and_then(|v| v.as_str()).unwrap_or("?").to_string();
                let alloc = txt.lines().any(|l| l.starts_with("ALLOC "));
                let how = match o.status.signal() {
                    Some(s) => format!("signal {}", s),
                    None => format!("exit {:?}", o.status.code()),
                };
                if alloc {
                    vec![Violation { oracle: "memory_budget".into(), sig: format!("alloc-abort:{}", label), detail: format!("process aborted on allocation ({})", how) }]
                } else {
                    vec![Violation { oracle: "no_abort".into(), sig: format!("abort:{}", label), detail: format!("process died: {}", how) }]
                }
            }
        }
        Err(e) => {
            eprintln!("HARNESS ERROR: cannot run child: {}", e);
            std::process::exit(2);
        }
    }
}

pub fn shrink(check: &dyn Check, sc: Value, sig: &str, in_child: bool, budget: usize) -> (Value, usize) {
    let mut cur = sc;
    let mut steps = 0;
    let mut tried = 0;
    loop {
        let mut progressed = false;
        for cand in check.shrink(&cur) {
            if tried >= budget {
                return (cur, steps);
            }
            tried += 1;
            let vs = if in_child { exec_in_child(check.id(), &cand) } else { exec_guarded(check, &cand).violations };
            if same_class(&vs, sig) {
                cur = cand;
                steps += 1;
                progressed = true;
                break;
            }
        }
        if !progressed {
            return (cur, steps);
        }
    }
}

pub fn write_replay(id: &str, seed: u64, f: &Found, v: &Violation, minimized: &Value, steps: usize) -> PathBuf {
    let dir = verif_dir().join("replays");
    let _ = std::fs::create_dir_all(&dir);
    let h = crate::rng::fnv1a(format!("{}{}", v.sig, minimized).as_bytes());
    let p = dir.join(format!("{}-{}-{:016x}.json", id, seed, h));
    let doc = json!({
        "property": id,
        "verif_seed": seed,
        "run_index": f.index,
        "run_seed": f.run_seed,
        "violation": v,
        "shrink_steps": steps,
        "scenario": minimized,
        "original_scenario_hash": format!("{:016x}", crate::rng::fnv1a(f.scenario.to_string().as_bytes())),
    });
    std::fs::write(&p, serde_json::to_string_pretty(&doc).unwrap()).unwrap();
    p
}

// ---------------------------------------------------------------------------------------------
// top-level check driver

pub fn env_u64(k: &str, d: u64) -> u64 {
    std::env::var(k).ok().and_then(|s| s.parse().ok()).unwrap_or(d)
}

pub fn run_check(check: &dyn Check, tier: Tier) -> i32 {
    let seed = env_u64("VERIF_SEED", 1);
    let jobs = env_u64("VERIF_JOBS", 16).max(1);
    let id = check.id();
    println!("VERIF_SEED={} property={} tier={} jobs={}", seed, id, tier.name(), jobs);
    let (n_enum, n_samp) = check.plan(tier);
    println!("plan: {} enumerated + {} sampled runs", n_enum, n_samp);
    let sum = run_workers(check, tier, seed, jobs);
    let known = load_known(id);
    let mut sum = sum;
    // violations whose signature embeds the scenario label (process deaths, allocation budget) are
    // minimised first, so that the signature names the minimal scenario
    let mut pre = 0;
    let mut pre_hang = 0;
    let mut minimal: Vec<Value> = Vec::new();
    for f in sum.found.iter_mut() {
        if f.violations.len() == 1 && label_class(&f.violations[0].sig).is_some() {
            let sig = f.violations[0].sig.clone();
            // always in a child process: these scenarios can kill the process that executes them
            let in_child = true;
            let p = label_class(&sig).unwrap();
            let hang = p == "hang:";
            if hang && pre_hang >= 3 {
                // every execution of a hanging scenario costs a watchdog interval: the first few are minimised, the rest reported as found
                continue;
            }
            // shortcut: does an already minimised scenario explain this one?
            let mut explained = false;
            for m in &minimal {
                if let Some(r) = check.restrict(&f.scenario, m) {
                    let vs = if in_child { exec_in_child(id, &r) } else { exec_guarded(check, &r).violations };
                    if let Some(v) = vs.into_iter().find(|v| v.sig.starts_with(p)) {
                        f.scenario = r;
                        f.violations = vec![v];
                        explained = true;
                        break;
                    }
                }
            }
            if explained || pre >= 40 {
                continue;
            }
            pre += 1;
            if hang {
                pre_hang += 1;
            }
            // every candidate that still hangs costs a watchdog interval
            let (min, _steps) = shrink(check, f.scenario.clone(), &sig, in_child, if hang { 8 } else { 60 });
            minimal.push(min.clone());
            let vs = if in_child { exec_in_child(id, &min) } else { exec_guarded(check, &min).violations };
            if let Some(v) = vs.into_iter().find(|v| v.sig.starts_with(p)) {
                f.scenario = min;
                f.violations = vec![v];
            }
        }
    }
    // group violations by signature
    let mut by_sig: BTreeMap<String, Vec<(usize, usize)>> = BTreeMap::new();
    for (fi, f) in sum.found.iter().enumerate() {
        for (vi, v) in f.violations.iter().enumerate() {
            by_sig.entry(v.sig.clone()).or_default().push((fi, vi));
        }
    }
    let mut exit = 0;
    let mut known_hit: BTreeSet<String> = BTreeSet::new();
    let mut new_sigs = Vec::new();
    for (sig, occ) in &by_sig {
        if sig.starts_with("harness-panic") {
            let (fi, vi) = occ[0];
            eprintln!("HARNESS ERROR: {}", sum.found[fi].violations[vi].detail);
            return 2;
        }
        if let Some(k) = known.iter().find(|k| sig.contains(&k.sig)) {
            known_hit.insert(format!("{} | {}", k.sig, k.what));
        } else {
            new_sigs.push(sig.clone());
        }
    }
    for k in &known_hit {
        println!("KNOWN-FINDING: property={} {}", id, k);
    }
    let max_report = env_u64("VERIF_MAX_REPORT", 40) as usize;
    let mut replays = Vec::new();
    let mut hang_reports = 0;
    for sig in new_sigs.iter() {
        let occ = &by_sig[sig];
        let (fi, vi) = occ[0];
        let f = &sum.found[fi];
        let v = &f.violations[vi];
        let hang = sig.starts_with("hang:");
        if replays.len() < max_report && !(hang && hang_reports >= 4) {
            if hang {
                hang_reports += 1;
            }
            let in_child = v.oracle == "no_abort" || v.oracle == "bounded_liveness" || v.oracle == "memory_budget" || label_class(sig).is_some();
            let (min, steps) = shrink(check, f.scenario.clone(), sig, in_child, if sig.starts_with("hang:") { 4 } else if in_child { 40 } else { 400 });
            let p = write_replay(id, seed, f, v, &min, steps);
            println!("VIOLATION property={} replay={}", id, p.display());
            println!("  oracle={} sig={} occurrences={} first_run={} detail={}", v.oracle, sig, occ.len(), f.index, v.detail.chars().take(300).collect::<String>());
            replays.push(p.display().to_string());
        } else {
            println!("VIOLATION property={} replay=(not written: report limit) sig={}", id, sig);
        }
        exit = 1;
    }
    // evidence
    let wall = sum.wall_s;
    let runs = sum.done.runs;
    let mut cov = json!({
        "evaluations": runs,
        "distinct_nontrivial": sum.distinct_nontrivial,
        "rule": check.rule(),
        "samples": sum.done.samples,
        "enumerated_runs": n_enum,
        "sampled_runs": n_samp,
        "runs_per_hour": if wall > 0.0 { (runs as f64 / wall * 3600.0) as u64 } else { 0 },
        "seeds_per_hour": if wall > 0.0 { (runs as f64 / wall * 3600.0) as u64 } else { 0 },
        "simulated_time_ticks": sum.done.ticks,
        "simulated_bytes": sum.done.bytes,
        "counters": sum.done.counters,
        "worker_processes": sum.jobs,
        "worker_deaths_attributed": sum.worker_deaths,
        "event_log_digest": format!("{:016x}", sum.done.log_digest),
        "known_findings_hit": known_hit.iter().collect::<Vec<_>>(),
        "new_violation_signatures": new_sigs,
        "replays": replays,
        "components": check.components(),
        "exhaustive": false,
    });
    if let (Some(o), Value::Object(extra)) = (cov.as_object_mut(), check.extra_evidence()) {
        for (k, v) in extra {
            o.insert(k, v);
        }
    }
    let ev = json!({
        "property_id": id,
        "tier": tier.name(),
        "seed": seed,
        "level": check.level(),
        "coverage": cov,
        "assumptions": check.assumptions(),
        "wall_s": wall,
        "violations": by_sig.len() - known_hit.len().min(by_sig.len()),
    });
    let evdir = verif_dir().join("evidence");
    let _ = std::fs::create_dir_all(&evdir);
    std::fs::write(evdir.join(format!("{}.json", id)), serde_json::to_string_pretty(&ev).unwrap()).unwrap();
    println!("runs={} distinct_nontrivial={} wall_s={:.1} violations_new={} known_hit={} worker_deaths={}", runs, sum.distinct_nontrivial, wall, new_sigs.len(), known_hit.len(), sum.worker_deaths);
    exit
}

pub fn replay_file(checks: &[&dyn Check], path: &Path) -> i32 {
    let txt = match std::fs::read_to_string(path) {
        Ok(t) => t,
        Err(e) => {
            eprintln!("HARNESS ERROR: {}: {}", path.display(), e);
            return 2;
        }
    };
    let doc: Value = serde_json::from_str(&txt).unwrap_or(Value::Null);
    let id = doc["property"].as_str().unwrap_or("");
    let Some(check) = checks.iter().find(|c| c.id() == id) else {
        eprintln!("HARNESS ERROR: unknown property in replay file");
        return 2;
    };
    let want_sig = doc["violation"]["sig"].as_str().unwrap_or("").to_string();
    let vs = exec_in_child(id, &doc["scenario"]);
    for v in &vs {
        println!("  oracle={} sig={} detail={}", v.oracle, v.sig, v.detail.chars().take(400).collect::<String>());
    }
    if vs.iter().any(|v| v.sig == want_sig) {
        println!("VIOLATION property={} replay={}", id, path.display());
        println!("REPRODUCED sig={}", want_sig);
        1
    } else if vs.is_empty() {
        println!("NOT REPRODUCED: scenario executed without violation");
        0
    } else {
        println!("DIFFERENT VIOLATION (expected sig={})", want_sig);
        1
    }
}

pub fn exec_one_main(check: &dyn Check, path: &str) {
    let txt = std::fs::read_to_string(path).unwrap();
    let sc: Value = serde_json::from_str(&txt).unwrap();
    crate::alloc::set_report_fd(1);
    let o = exec_guarded(check, &sc);
    println!("OUTCOME {}", serde_json::to_string(&o.violations).unwrap());
}

// ---------------------------------------------------------------------------------------------
// self-test of the supervisor: a fake check whose scenarios hang, abort, over-allocate and overflow the stack

pub struct SelfCheck;

#[allow(unconditional_recursion)]
fn recurse(n: u64) -> u64 {
    let a = [n; 64];
    recurse(n + 1) + a[(n % 64) as usize]
}

impl Check for SelfCheck {
    fn id(&self) -> &'static str {
        "SELF"
    }
    fn level(&self) -> &'static str {
        "other"
    }
    fn rule(&self) -> String {
        "supervisor self-test".into()
    }
    fn assumptions(&self) -> Vec<String> {
        vec![]
    }
    fn components(&self) -> Value {
        json!({})
    }
    fn plan(&self, _tier: Tier) -> (u64, u64) {
        (64, 0)
    }
    fn gen(&self, i: u64, _seed: u64, _tier: Tier) -> Value {
        let what = match i {
            11 => "hang",
            23 => "abort",
            37 => "alloc",
            41 => "stack",
            _ => "ok",
        };
        json!({"label": format!("self:{}", what), "what": what})
    }
    fn exec(&self, sc: &Value) -> Outcome {
        let mut o = Outcome::default();
        match sc["what"].as_str().unwrap_or("") {
            "hang" => loop {
                std::hint::black_box(0);
            },
            "abort" => std::process::abort(),
            "alloc" => {
                let v: Vec<u8> = Vec::with_capacity(7 << 30);
                std::hint::black_box(&v);
            }
            "stack" => {
                std::hint::black_box(recurse(0));
            }
            _ => {}
        }
        o.log_hash = 1;
        o
    }
    fn shrink(&self, _sc: &Value) -> Vec<Value> {
        vec![]
    }
}

/// exit 0 if the supervisor attributed every injected failure to the right run
pub fn selftest_supervisor() -> i32 {
    std::env::set_var("VERIF_WATCHDOG_S", "3");
    let sum = run_workers(&SelfCheck, Tier::Quick, 1, 4);
    let mut got: Vec<(u64, String)> = sum.found.iter().map(|f| (f.index, f.violations[0].sig.clone())).collect();
    got.sort();
    let want = vec![(11u64, "hang:self:hang".to_string()), (23, "abort:self:abort".to_string()), (37, "alloc-abort:self:alloc".to_string()), (41, "abort:self:stack".to_string())];
    println!("attributed: {:?}", got);
    if got == want && sum.done.runs >= 32 {
        println!("supervisor self-test passed ({} runs completed, {} worker deaths attributed)", sum.done.runs, sum.worker_deaths);
        0
    } else {
        println!("HARNESS ERROR: supervisor self-test failed, wanted {:?}", want);
        2
    }
}
