//! Helpers shared by the wire-sim checks: compact byte strings in scenarios, scenario field access,
//! corpus/model loading, frame generation.

use crate::model::*;
use crate::pipe::Schedule;
use crate::rng::Rng;
use crate::world::Flavour;
use crate::wowm::Corpus;
use serde_json::{json, Value};

pub fn hex(b: &[u8]) -> String {
    let mut s = String::with_capacity(b.len() * 2);
    for x in b {
        s.push_str(&format!("{:02x}", x));
    }
    s
}

pub fn unhex(s: &str) -> Vec<u8> {
    let b = s.as_bytes();
    let mut v = Vec::with_capacity(b.len() / 2);
    let mut i = 0;
    while i + 1 < b.len() {
        let h = (b[i] as char).to_digit(16).unwrap_or(0) as u8;
        let l = (b[i + 1] as char).to_digit(16).unwrap_or(0) as u8;
        v.push(h << 4 | l);
        i += 2;
    }
    v
}

/// byte strings are stored as hex, or as {"pre":hex,"fill":[byte,count],"post":hex} when they contain a long run
pub fn bytes_to_json(b: &[u8]) -> Value {
    if b.len() > 512 {
        // longest run of one byte value
        let mut best = (0usize, 0usize);
        let mut i = 0;
        while i < b.len() {
            let mut j = i;
            while j < b.len() && b[j] == b[i] {
                j += 1;
            }
            if j - i > best.1 {
                best = (i, j - i);
            }
            i = j;
        }
        if best.1 > 256 {
            return json!({"pre": hex(&b[..best.0]), "fill": [b[best.0], best.1], "post": hex(&b[best.0 + best.1..])});
        }
    }
    Value::String(hex(b))
}

pub fn json_to_bytes(v: &Value) -> Vec<u8> {
    match v {
        Value::String(s) => unhex(s),
        Value::Object(o) => {
            let mut out = unhex(o.get("pre").and_then(|x| x.as_str()).unwrap_or(""));
            if let Some(f) = o.get("fill").and_then(|x| x.as_array()) {
                let byte = f.first().and_then(|x| x.as_u64()).unwrap_or(0) as u8;
                let n = f.get(1).and_then(|x| x.as_u64()).unwrap_or(0) as usize;
                out.resize(out.len() + n, byte);
            }
            out.extend_from_slice(&unhex(o.get("post").and_then(|x| x.as_str()).unwrap_or("")));
            out
        }
        _ => Vec::new(),
    }
}

pub fn flavour_of(v: &Value) -> Flavour {
    match v.as_str().unwrap_or("sync") {
        "tokio" => Flavour::Tokio,
        "astd" => Flavour::Astd,
        _ => Flavour::Sync,
    }
}

pub fn sched_of(v: &Value) -> Schedule {
    serde_json::from_value(v.clone()).unwrap_or_else(|_| Schedule::whole())
}

pub fn sched_json(s: &Schedule) -> Value {
    serde_json::to_value(s).unwrap()
}

pub fn exp_of(v: &Value) -> Exp {
    Exp::from_name(v.as_str().unwrap_or("vanilla")).unwrap_or(Exp::Vanilla)
}

pub fn dir_of(v: &Value) -> Dir {
    if v.as_str() == Some("server") {
        Dir::Server
    } else {
        Dir::Client
    }
}

pub fn pick_flavour(rng: &mut Rng) -> Flavour {
    *rng.pick(&Flavour::ALL)
}

pub fn load_corpus_or_exit() -> Corpus {
    let root = format!("{}/wow_message_parser/wowm", crate::umask::repo_root());
    match crate::wowm::load_corpus(std::path::Path::new(&root)) {
        Ok(c) => c,
        Err(e) => {
            eprintln!("HARNESS ERROR: cannot parse wowm: {}", e);
            std::process::exit(2);
        }
    }
}

pub fn model_or_exit<'c>(c: &'c Corpus, t: Target) -> Model<'c> {
    match Model::new(c, t) {
        Ok(m) => m,
        Err(e) => {
            eprintln!("HARNESS ERROR: model: {}", e);
            std::process::exit(2);
        }
    }
}

/// full wire bytes of a world frame
pub fn world_wire(exp: Exp, dir: Dir, f: &Frame) -> Vec<u8> {
    let body = f.wire_body();
    let mut b = world_header(exp, dir, f.opcode, body.len());
    b.extend_from_slice(&body);
    b
}

/// simplify a schedule (for shrinking): candidates in order of preference
pub fn shrink_sched(s: &Schedule) -> Vec<Schedule> {
    let mut out = Vec::new();
    if *s != Schedule::whole() {
        out.push(Schedule::whole());
    }
    if !s.steps.is_empty() {
        let mut t = s.clone();
        t.steps.truncate(s.steps.len() / 2);
        out.push(t);
        for i in 0..s.steps.len().min(24) {
            let mut t = s.clone();
            t.steps.remove(i);
            out.push(t);
        }
    }
    if s.tail_pending > 0 {
        let mut t = s.clone();
        t.tail_pending = 0;
        out.push(t);
    }
    out
}
