//! C05 — header encryption is transparent for whole message sequences.
//! A session with real wow_srp cipher halves on both sides; the same values are also written
//! with the plain writers onto a shadow stream. Oracles: ciphertext differs from plaintext only
//! in header bytes; an independent decrypter recovers the plaintext headers; the decrypting
//! reader returns what the plain reader returns on the plaintext; both cipher states in step
//! after the sequence.

use crate::c02::*;
use crate::core::*;
use crate::model::*;
use crate::pipe::Schedule;
use crate::rng::Rng;
use crate::sess::*;
use crate::world::*;
use serde_json::{json, Value};

/// marker added to a sweep length: the message is a big compressed one of about (length - HUGE) bytes
const HUGE: usize = 1 << 40;

pub struct C05 {
    pub ctx: WorldCtx,
    sweep: Vec<(Exp, Dir, usize)>,
    /// multiples of 256 and their neighbours: one run each (the reader flavour / entry point combination rotates)
    sweep256: Vec<(Exp, Dir, usize)>,
}

impl C05 {
    pub fn new() -> C05 {
        let mut sweep = Vec::new();
        for e in Exp::ALL {
            for d in [Dir::Client, Dir::Server] {
                for l in crate::c02::sweep_lengths(e, d) {
                    sweep.push((e, d, l));
                }
            }
        }
        // Wrath server messages beyond 0xFFFF bytes (the 3-byte size form with more than 16 significant bits): carried by
        // a compressed message with an incompressible payload, since WARDEN_DATA's own window ends at 0xFFFF
        for l in [0xFFF8usize, 0x10000, 0x10002, 0x10100, 0x13886, 0x20000, 0x27106, 0x40000, 0x100000] {
            sweep.push((Exp::Wrath, Dir::Server, l + HUGE));
        }
        let mut sweep256 = Vec::new();
        for e in Exp::ALL {
            for d in [Dir::Client, Dir::Server] {
                for l in crate::c02::sweep_lengths_256(e, d) {
                    sweep256.push((e, d, l));
                }
            }
        }
        C05 { ctx: WorldCtx::new(), sweep, sweep256 }
    }
}

fn key_of(rng: &mut Rng) -> [u8; 40] {
    let mut k = [0u8; 40];
    match rng.below(6) {
        0 => {}
        1 => k = [0xFF; 40],
        2 => k = [rng.below(256) as u8; 40],
        _ => rng.fill(&mut k),
    }
    k
}

impl Check for C05 {
    fn id(&self) -> &'static str {
        "C05"
    }
    fn level(&self) -> &'static str {
        "exploration"
    }
    fn rule(&self) -> String {
        "Each run is one simulated encrypted session in one direction: 2-16 world messages (model-peer frames decoded to library values, plus WARDEN_DATA messages of chosen lengths placed around the Wrath 2/3-byte header boundary, plus compressed messages, which override the encrypted writers) are written with write_encrypted_* (sync/tokio/async-std over a scheduled SimPipe) using real wow_srp cipher halves made from a per-run 40-byte session key, and in parallel with the plain writers onto a shadow stream; the ciphertext is read with read_encrypted / expect_*_message_encryption under a scheduled chunking. Enumerated part: every body length around every header-form boundary (the length sweep of C02) as the middle message of a three-message encrypted sequence, through each reader flavour and both entry points. Non-trivial: at least two messages were decrypted in sequence, or a delivery boundary fell inside a message; distinct = distinct event-log hashes.".into()
    }
    fn assumptions(&self) -> Vec<String> {
        vec![
            "wow_srp header ciphers are trusted real code (cipher peer)".into(),
            "loss/duplication/reordering are not injected: a TCP stream cipher legitimately desynchronises on them".into(),
            "sessions in which the plain writer or plain reader already fails are C02's domain and are skipped (counted)".into(),
        ]
    }
    fn components(&self) -> Value {
        json!({"real": ["wow_world_messages encrypted writers/readers (working tree)", "wow_srp 0.7.0 header ciphers", "flate2"],
               "simulated": ["transport (SimPipe)", "executor/waker", "peer application (model peer)"],
               "not_exercised": ["SRP key agreement itself (session key is chosen by the simulator)"]})
    }
    fn plan(&self, tier: Tier) -> (u64, u64) {
        (self.sweep.len() as u64 * 6 + self.sweep256.len() as u64, match tier {
            Tier::Quick => env_u64("VERIF_C05_RUNS", 40_000),
            Tier::Thorough => env_u64("VERIF_C05_RUNS", 2_000_000),
        })
    }
    fn gen(&self, i: u64, seed: u64, _tier: Tier) -> Value {
        let rng = Rng::new(seed);
        let mut wl = rng.fork("workload");
        let mut sr = rng.fork("schedule");
        let mut cf = rng.fork("config");
        if i < self.sweep.len() as u64 * 6 + self.sweep256.len() as u64 {
            // enumerated: every body length around every header-form boundary, as the MIDDLE message of an encrypted
            // sequence, through each reader flavour and both entry points (the writer flavour rotates along); then every
            // multiple of 256 with its neighbours once, the combination rotating
            let ((exp, dir, len), combo) = if i < self.sweep.len() as u64 * 6 {
                (self.sweep[(i / 6) as usize], i % 6)
            } else {
                let j = i - self.sweep.len() as u64 * 6;
                (self.sweep256[j as usize], (j / 3) % 6)
            };
            let fl = [Flavour::Sync, Flavour::Tokio, Flavour::Astd][(combo % 3) as usize];
            let wfl = [Flavour::Astd, Flavour::Sync, Flavour::Tokio][(combo % 3) as usize];
            let entry = if combo < 3 { "enum" } else { "expect" };
            let m = self.ctx.model(exp);
            let (mut frames, mut names) = gen_frames(m, exp, dir, &mut wl, 2, &Knobs { avoid_cond_flag_branches: 100, ..Knobs::default() });
            let mut warden = json!([[1, len]]);
            let mut len = len;
            if len >= HUGE {
                len -= HUGE;
                warden = json!([]);
                if let Some((f, nm)) = self.ctx.big_compressed_frame_of(exp, dir, &mut wl, "SMSG_COMPRESSED_UPDATE_OBJECT", len) {
                    let pos = 1.min(frames.len());
                    frames.insert(pos, f);
                    names.insert(pos, nm);
                }
            }
            let total = len + 256;
            let ws = if combo % 2 == 0 { Schedule::whole() } else { Schedule::random(&mut sr, total, wfl == Flavour::Sync) };
            let rs = if i % 4 == 0 { Schedule::whole() } else { Schedule::random(&mut sr, total, fl == Flavour::Sync) };
            let key = key_of(&mut cf);
            // every other typed-helper run of the sweep asks for ANOTHER type when the swept message arrives: the helper must
            // refuse it, consume exactly its bytes whatever their number, and the session must go on in step
            let wrong: Vec<Value> = if entry == "expect" && i % 2 == 0 && warden.as_array().map(|a| !a.is_empty()).unwrap_or(false) {
                let other = type_names(exp, dir).iter().find(|n| **n != crate::c02::warden_name(dir)).copied().unwrap_or("");
                vec![json!([1, other])]
            } else {
                vec![]
            };
            return json!({"kind": "sweep", "wrong_expect": wrong, "label": format!("{}:{}:len={:#x}", exp.name(), dir.name(), len),
                "exp": exp.name(), "dir": dir.name(), "frames": frames, "names": names, "warden": warden, "key": hex(&key),
                "wflavour": wfl.name(), "rflavour": fl.name(), "rentry": entry, "wsched": sched_json(&ws), "rsched": sched_json(&rs)});
        }
        let exp = *cf.pick(&Exp::ALL);
        let dir = if cf.chance(1, 2) { Dir::Client } else { Dir::Server };
        let m = self.ctx.model(exp);
        let nmax = if cf.chance(1, 3) { 14 } else { 4 };
        let n = 2 + cf.below(nmax) as usize;
        let mut knobs = Knobs { avoid_cond_flag_branches: 90, ..Knobs::default() };
        if cf.chance(1, 6) {
            knobs.max_arr = 30;
            knobs.size_budget = 36_000;
        }
        let (mut frames, mut names) = gen_frames(m, exp, dir, &mut wl, n, &knobs);
        // a compressed message somewhere in the sequence (they override the encrypted writers)
        let comp = self.ctx.compressed_names(exp, dir);
        if cf.chance(1, 10) {
            if let Some((f, nm)) = self.ctx.big_compressed_frame(exp, dir, &mut wl) {
                let pos = cf.below(frames.len() as u64 + 1) as usize;
                frames.insert(pos, f);
                names.insert(pos, nm);
            }
        }
        if !comp.is_empty() && cf.chance(1, 3) {
            let cname = cf.pick(comp).clone();
            if let Some(c) = m.message(&cname) {
                if let Ok(f) = m.encode(c, &mut wl, &knobs) {
                    let pos = cf.below(frames.len() as u64 + 1) as usize;
                    frames.insert(pos, bytes_to_json(&world_wire(exp, dir, &f)));
                    names.insert(pos, f.name);
                }
            }
        }
        let mut warden = Vec::new();
        if cf.chance(1, 3) {
            let k = 1 + cf.below(2);
            for _ in 0..k {
                let len = if exp == Exp::Wrath && dir == Dir::Server {
                    match cf.below(4) {
                        0 => *cf.pick(&[0usize, 1, 0x7FF0, 0x9000, 0xFFFF]),
                        _ => 0x7FF6 + cf.below(16) as usize, // every length around the 2/3-byte header boundary
                    }
                } else {
                    *cf.pick(&[0usize, 1, 100, 0x7FFF, 0x8000, 0xFFF0])
                };
                let pos = cf.below(frames.len() as u64 + 1);
                warden.push(json!([pos, len]));
            }
        }
        let total: usize = frames.iter().map(|f| json_to_bytes(f).len()).sum::<usize>() + 64;
        let wfl = pick_flavour(&mut cf);
        let rfl = pick_flavour(&mut cf);
        let entry = if cf.chance(1, 2) { "enum" } else { "expect" };
        let ws = if cf.chance(1, 2) { Schedule::whole() } else { Schedule::random(&mut sr, total, wfl == Flavour::Sync) };
        let rs = if cf.chance(1, 4) { Schedule::whole() } else { Schedule::random(&mut sr, total, rfl == Flavour::Sync) };
        let key = key_of(&mut cf);
        let wrong: Vec<Value> = if entry == "expect" && cf.chance(1, 4) && !names.is_empty() {
            let k = cf.below(names.len() as u64 + warden.len() as u64);
            vec![json!([k, *cf.pick(type_names(exp, dir))])]
        } else {
            vec![]
        };
        json!({"kind": "session", "wrong_expect": wrong, "label": format!("{}:{}:{}", exp.name(), dir.name(), names.join("+")),
            "exp": exp.name(), "dir": dir.name(), "frames": frames, "names": names, "warden": warden, "key": hex(&key),
            "wflavour": wfl.name(), "rflavour": rfl.name(), "rentry": entry, "wsched": sched_json(&ws), "rsched": sched_json(&rs)})
    }

    fn exec(&self, sc: &Value) -> Outcome {
        let mut o = Outcome::default();
        let exp = exp_of(&sc["exp"]);
        let dir = dir_of(&sc["dir"]);
        let frames: Vec<Value> = sc["frames"].as_array().cloned().unwrap_or_default();
        let names: Vec<String> = sc["names"].as_array().map(|a| a.iter().map(|x| x.as_str().unwrap_or("").to_string()).collect()).unwrap_or_default();
        let mut wl = decode_workload(exp, dir, &frames, &names);
        o.count("model_frames", frames.len() as u64);
        o.count("model_frames_rejected", wl.rejected);
        o.count("model_frames_decode_panic", wl.decode_panics);
        inject_wardens(&mut wl, exp, dir, sc);
        if wl.msgs.is_empty() {
            return o;
        }
        let kb = unhex(sc["key"].as_str().unwrap_or(""));
        let mut key = [0u8; 40];
        for (i, b) in kb.iter().take(40).enumerate() {
            key[i] = *b;
        }
        run_session(&mut o, exp, dir, &wl, sc, Some(key));
        if o.counters.get("messages_read_back").copied().unwrap_or(0) >= 2 {
            o.nontrivial = true;
        }
        o
    }

    fn shrink(&self, sc: &Value) -> Vec<Value> {
        shrink_session(sc)
    }
    fn restrict(&self, sc: &Value, other: &Value) -> Option<Value> {
        restrict_session(sc, other)
    }
}
