//! C06 — blocking, tokio and async-std variants agree under every stream chunking.
//! One byte string, three readers (login: three separately generated state machines per
//! message), arbitrary transports: any split into chunks, Pending between chunks, single-byte
//! reads, EOF at any offset. Reference = the blocking reader on the whole buffer.

use crate::c03::*;
use crate::core::*;
use crate::fault::*;
use crate::login::*;
use crate::model::*;
use crate::pipe::{Schedule, SimReader, SimWriter, Step};
use crate::rng::{Fnv, Rng};
use crate::sess::*;
use crate::world::*;
use serde_json::{json, Value};

#[derive(Clone)]
enum Item {
    Whole,
    Bytewise,
    Split(u32),
    Eof(u32),
    Write,
}

struct EFrame {
    case: Case,
    bytes: Vec<u8>,
    bounds: Vec<usize>,
}

pub struct C06 {
    pub ctx: AllCtx,
    cases: Vec<Case>,
    frames_q: Vec<EFrame>,
    items_q: Vec<(usize, Item, bool)>,
    frames_t: Vec<EFrame>,
    items_t: Vec<(usize, Item, bool)>,
}

fn world_cases(ctx: &AllCtx) -> Vec<Case> {
    let mut v = Vec::new();
    for e in Exp::ALL {
        for d in [Dir::Client, Dir::Server] {
            let msgs = ctx.world.model(e).messages_dir(d);
            v.push(Case { login: None, exp: e, dir: d, name: crate::c02::warden_name(d).to_string() });
            // compressed messages override their (encrypted) writers in every flavour
            let comp = ctx.world.compressed_names(e, d).clone();
            for n in &comp {
                v.push(Case { login: None, exp: e, dir: d, name: n.clone() });
            }
            // a spread of other messages (deterministic: every 40th by name order)
            for (i, c) in msgs.iter().enumerate() {
                if i % 40 == 7 && !comp.contains(&c.name) {
                    v.push(Case { login: None, exp: e, dir: d, name: c.name.clone() });
                }
            }
        }
    }
    v
}

fn build(ctx: &AllCtx, shapes: u64, master: u64) -> (Vec<EFrame>, Vec<(usize, Item, bool)>) {
    let mut frames = Vec::new();
    let mut items = Vec::new();
    let mut cases: Vec<Case> = all_cases(ctx).into_iter().filter(|c| c.login.is_some()).collect();
    cases.extend(world_cases(ctx));
    for c in &cases {
        // greedy shape coverage: out of many candidate frames keep those that add new branch/enumerator tokens
        let mut seen_tokens = std::collections::BTreeSet::new();
        let mut seen = std::collections::BTreeSet::new();
        let mut kept = 0u64;
        for s in 0..shapes * 12 {
            if kept >= shapes {
                break;
            }
            let mut rng = Rng::new(crate::rng::run_seed(master, &c.label(), 0xC06 + s));
            // one candidate per login message has its arrays at the limits of a u8 count (255 / 256 elements)
            let knobs = if c.login.is_none() && c.name.contains("WARDEN") { Knobs { endless_len: Some([0usize, 1, 5, 0x8000][(s % 4) as usize]), ..Knobs::default() } } else if c.login.is_some() && s == 1 { Knobs { big_array_one_in: 1, size_budget: 200_000, ..Knobs::default() } } else { Knobs::default() };
            let Some(f) = encode_case(ctx, c, &mut rng, &knobs) else { continue };
            let key = format!("{}|{}", f.shape, f.plain.len());
            if !seen.insert(key) {
                continue;
            }
            let mut tokens: Vec<String> = f.shape.split(',').map(|x| x.to_string()).collect();
            if c.name.contains("WARDEN") {
                // the body length class is what matters for the header/body readers
                tokens.push(format!("len={}", f.plain.len()));
            }
            if knobs.big_array_one_in > 0 && f.plain.len() > 255 {
                tokens.push("array:255+".to_string());
            }
            let adds = tokens.iter().any(|t| !seen_tokens.contains(t));
            if kept > 0 && !adds && s < shapes * 10 {
                continue;
            }
            for t in tokens {
                seen_tokens.insert(t);
            }
            kept += 1;
            let bytes = intact_stream(c, &f);
            let hl = bytes.len() - f.wire_body().len().min(bytes.len());
            let hl = if c.login.is_some() { 0 } else { hl };
            let bounds: Vec<usize> = f.fields.iter().map(|x| x.off + hl).filter(|b| *b > 0 && *b < bytes.len()).collect();
            let n = bytes.len() as u32;
            let fi = frames.len();
            // login frames are enumerated a second time through the protocol-parameterised readers (third element true)
            for proto in [false, true] {
                if proto && c.login.is_none() {
                    continue;
                }
                items.push((fi, Item::Whole, proto));
                items.push((fi, Item::Bytewise, proto));
                if !proto {
                    items.push((fi, Item::Write, false));
                }
                for k in 1..n {
                    if n <= 200 || (n <= 2000 && (k <= 64 || k + 8 >= n || k % 16 == 0)) || (n > 2000 && (k <= 16 || k + 4 >= n || k % 4096 == 0)) {
                        items.push((fi, Item::Split(k), proto));
                    }
                }
                for t in 0..n {
                    if n <= 200 || (n <= 2000 && (t <= 64 || t + 8 >= n || t % 16 == 0)) || (n > 2000 && (t <= 16 || t + 4 >= n || t % 4096 == 0)) {
                        items.push((fi, Item::Eof(t), proto));
                    }
                }
            }
            frames.push(EFrame { case: c.clone(), bytes, bounds });
        }
    }
    (frames, items)
}

impl C06 {
    pub fn new() -> C06 {
        let ctx = AllCtx::new();
        let master = env_u64("VERIF_SEED", 1);
        let mut cases = all_cases(&ctx);
        cases.retain(|c| c.login.is_some());
        cases.extend(world_cases(&ctx));
        let (frames_q, items_q) = build(&ctx, 4, master);
        let (frames_t, items_t) = build(&ctx, 6, master);
        C06 { ctx, cases, frames_q, items_q, frames_t, items_t }
    }
}

/// read up to `n` messages; each element: (result signature, consumed after it)
fn read_seq(case: &Case, names: &[String], entry0: &Entry, fl: Flavour, stream: &[u8], sched: &Schedule, end_error: Option<std::io::ErrorKind>, o: &mut Outcome, enc: bool) -> (Vec<(Result<String, ErrSig>, usize)>, Option<String>, crate::pipe::PipeStats, Vec<usize>, Vec<usize>, u64) {
    let mut crypto = if enc { Some(session_crypto(case.exp, [9u8; 40])) } else { None };
    let mut r = SimReader::new(stream, sched);
    r.end_error = end_error;
    let pend: u64 = sched.steps.iter().map(|s| if let Step::Pending(k) = s { *k as u64 } else { 0 }).sum();
    let budget = 8 * stream.len() as u64 + 4 * pend + (sched.tail_pending as u64 + 1) * (stream.len() as u64 + 8) + 64;
    let mut out = Vec::new();
    let mut problem = None;
    for k in 0..names.len() {
        let entry = match entry0 {
            Entry::Expect(_) => Entry::Expect(names[k].clone()),
            Entry::ExpectProtocol(_) => Entry::ExpectProtocol(names[k].clone()),
            Entry::EnumProtocol => Entry::EnumProtocol,
            Entry::Initial if k == 0 => Entry::Initial,
            _ => Entry::Enum,
        };
        let dec = match (&mut crypto, case.dir) {
            (Some(c), Dir::Client) => Some(&mut c.server_dec),
            (Some(c), Dir::Server) => Some(&mut c.client_dec),
            _ => None,
        };
        let res = guarded(|| match dec {
            None => read_any(case, &entry, fl, &mut r, budget),
            Some(d) => {
                let ro = match &entry {
                    Entry::Expect(n) => read_expect(case.exp, case.dir, n, fl, Some(d), &mut r, budget).map(|x| x.0),
                    _ => Some(read_enum(case.exp, case.dir, fl, Some(d), &mut r, budget)),
                };
                match ro {
                    Some(ro) => (ro.result.map(|m| m.debug()), ro.polls, ro.budget_exceeded),
                    None => (Err(ErrSig { outer: "HARNESS".into(), kind: "no-entry".into(), detail: String::new() }), 0, false),
                }
            }
        });
        match res {
            Err((msg, loc)) => {
                problem = Some(format!("panic:{}", panic_sig(&msg, &loc)));
                break;
            }
            Ok((res, polls, exceeded)) => {
                o.ticks += polls;
                if exceeded {
                    problem = Some("stall".to_string());
                    break;
                }
                let is_err = res.is_err();
                out.push((res, r.consumed()));
                if is_err {
                    break;
                }
            }
        }
    }
    let log = r.log.0;
    (out, problem, r.stats.clone(), r.boundaries.clone(), r.pending_at.clone(), log)
}

impl Check for C06 {
    fn id(&self) -> &'static str {
        "C06"
    }
    fn level(&self) -> &'static str {
        "exploration"
    }
    fn rule(&self) -> String {
        "Reference: the blocking reader on the whole buffer. Enumerated part (a fault at each site, linear in the message length): for every login message of every protocol version (2,3,5,6,7,8; both directions; several shapes per message from the model peer) and for a spread of world messages incl. both Wrath header forms: whole buffer; one byte at a time with a Pending before every byte; every single split position k with one Pending at the split; EOF at every offset (truncated input); and the three writer flavours over short-write/Pending pipes. Sampled part: 1-4 messages back to back on one stream (a consumption difference shows as a wrong next message), optionally with one structured corruption (truncation, count/enum/bool/string faults), arbitrary chunk compositions with Pending runs of 0-3 and both waker disciplines, through the opcode-enum readers, the typed expect helpers and read_initial_message. tokio, async-std and the chunked blocking reader (with EINTR) must return exactly what the reference returns: equal value (Debug rendering and re-encoded bytes) or an error of the same kind (outer variant, ParseErrorKind variant, io::ErrorKind, enum value), and consume the same number of bytes. World cases are run a second time with every header encrypted under a session key (real wow_srp halves): the tokio, async-std and chunked blocking decrypting readers must agree with the blocking decrypting reader on the whole buffer (the three flavours of read_encrypted / expect_*_message_encryption are separate copies too). WARDEN_DATA frames of 0x7FFF/0x8000+ bytes put both Wrath header forms into the enumerated part of the quick tier. Non-trivial: a delivery boundary or Pending fell strictly inside a message; distinct = distinct event-log hashes.".into()
    }
    fn assumptions(&self) -> Vec<String> {
        vec![
            "Interrupted is not injected into async readers and cancellation is not simulated (the property does not mention them)".into(),
            "error texts are not compared, only kinds and reported numbers".into(),
        ]
    }
    fn components(&self) -> Value {
        json!({"real": ["wow_login_messages: read/tokio_read/astd_read of every message and opcode enum, helper::expect_*, read_initial_message, write/tokio_write/astd_write", "wow_world_messages header/body readers and writers x3 flavours", "tokio::io::AsyncReadExt::read_exact", "async_std::io::ReadExt::read_exact"],
               "simulated": ["transport (SimPipe with scheduled chunking, Pending, EOF, error at end)", "executor with hand-written waker (both wake disciplines)", "peer (model peer frames)"],
               "not_exercised": ["tokio/async-std runtimes (only their I/O traits are used by the libraries)", "protocol-parameterised WRITERS (write_protocol): not reachable through the opcode enums"]})
    }
    fn plan(&self, tier: Tier) -> (u64, u64) {
        match tier {
            Tier::Quick => (self.items_q.len() as u64, env_u64("VERIF_C06_RUNS", 60_000)),
            Tier::Thorough => (self.items_t.len() as u64, env_u64("VERIF_C06_RUNS", 3_000_000)),
        }
    }
    fn gen(&self, i: u64, seed: u64, tier: Tier) -> Value {
        let (frames, items) = match tier {
            Tier::Quick => (&self.frames_q, &self.items_q),
            Tier::Thorough => (&self.frames_t, &self.items_t),
        };
        let rng = Rng::new(seed);
        let mut cf = rng.fork("config");
        let mut sr = rng.fork("schedule");
        let mut fr = rng.fork("faults");
        if (i as usize) < items.len() {
            let (fi, item, proto) = &items[i as usize];
            let f = &frames[*fi];
            let n = f.bytes.len();
            let entry = if *proto {
                if i % 2 == 0 { "enum-protocol".to_string() } else { format!("expect-protocol:{}", f.case.name) }
            } else { match i % 3 {
                0 => "enum".to_string(),
                1 => format!("expect:{}", f.case.name),
                _ => {
                    if f.case.login.is_some() && (f.case.name == "CMD_AUTH_LOGON_CHALLENGE_Client" || f.case.name == "CMD_AUTH_RECONNECT_CHALLENGE_Client") {
                        "initial".to_string()
                    } else {
                        "enum".to_string()
                    }
                }
            } };
            let (kind, stream, sched, what): (&str, Vec<u8>, Schedule, String) = match item {
                Item::Whole => ("read", f.bytes.clone(), Schedule::whole(), "whole".into()),
                Item::Bytewise => ("read", f.bytes.clone(), Schedule::bytewise(1), "bytewise+pending".into()),
                Item::Split(k) => ("read", f.bytes.clone(), Schedule::split_at(*k), format!("split@{}", k)),
                Item::Eof(t) => ("read", f.bytes[..*t as usize].to_vec(), Schedule { steps: vec![], tail_chunk: 3, tail_pending: 1, wake_now: false }, format!("eof@{}", t)),
                Item::Write => ("write", f.bytes.clone(), Schedule::random(&mut sr, n + 4, false), "write".into()),
            };
            let what = if *proto { format!("{}:protocol", what) } else { what };
            return json!({"kind": kind, "label": format!("{}:{}", f.case.label(), what), "case": case_json(&f.case), "names": [f.case.name], "stream": bytes_to_json(&stream),
                "bounds": f.bounds, "starts": [0], "entry": entry, "end_error": "", "enumerated": true,
                "sched_t": sched_json(&sched), "sched_a": sched_json(&sched), "sched_s": sched_json(&Schedule { steps: sched.steps.iter().map(|s| if let Step::Pending(_) = s { Step::Interrupted } else { *s }).collect(), tail_chunk: sched.tail_chunk, tail_pending: 0, wake_now: true })});
        }
        // sampled
        let case = cf.pick(&self.cases).clone();
        let model = model_for(&self.ctx, &case);
        let msgs = model.messages_dir(case.dir);
        let n = 1 + cf.below(4) as usize;
        let fault_at = if cf.chance(2, 5) { Some(cf.below(n as u64) as usize) } else { None };
        let mut stream = Vec::new();
        let mut names = Vec::new();
        let mut bounds = Vec::new();
        let mut fault_desc = String::new();
        let mut starts: Vec<usize> = Vec::new();
        for k in 0..n {
            let c = if k == 0 { model.message(&case.name).unwrap_or(msgs[0]) } else { *cf.pick(&msgs) };
            let Ok(f) = model.encode(c, &mut cf, &Knobs { allow_nan: false, ..Knobs::default() }) else { continue };
            let cc = Case { name: f.name.clone(), ..case.clone() };
            let start = stream.len();
            starts.push(start);
            if Some(k) == fault_at {
                let mut muts = field_mutations(&f);
                muts.extend(truncations(&f, cc.login.is_none()));
                let m = if muts.is_empty() || fr.chance(1, 5) { random_mutation(&f, &mut fr, cc.login.is_none()) } else { fr.pick(&muts).clone() };
                fault_desc = format!("msg#{} {}: {}", k, m.kind, m.desc);
                stream.extend_from_slice(&mutated_stream(&cc, &f, &m));
            } else {
                let b = intact_stream(&cc, &f);
                let hl = if cc.login.is_some() { 0 } else { b.len() - f.wire_body().len().min(b.len()) };
                bounds.extend(f.fields.iter().map(|x| start + x.off + hl).filter(|x| *x > start));
                stream.extend_from_slice(&b);
            }
            names.push(f.name.clone());
        }
        let entry = match cf.below(6) {
            0 => format!("expect:{}", names.first().cloned().unwrap_or_default()),
            1 if case.login.is_some() && case.dir == Dir::Client => "initial".to_string(),
            4 if case.login.is_some() => "enum-protocol".to_string(),
            5 if case.login.is_some() => format!("expect-protocol:{}", names.first().cloned().unwrap_or_default()),
            _ => "enum".to_string(),
        };
        // the typed helper asked for ANOTHER type than the one that arrives (world: a type whose helper is instantiated in
        // all three flavours): the three flavours must agree on the error kind and on the bytes consumed, also when the
        // stream ends inside the unexpected message
        let mut names = names;
        let mut wrong_desc = String::new();
        if entry.starts_with("expect:") && case.login.is_none() && !names.is_empty() && cf.chance(1, 3) {
            let all = type_names(case.exp, case.dir);
            let k = cf.below(names.len() as u64) as usize;
            let pick = (cf.below((all.len() as u64 + 5) / 6) * 6) as usize;
            if pick < all.len() && all[pick] != names[k] {
                wrong_desc = format!("helper asked for {} where {} arrives (message #{})", all[pick], names[k], k);
                names[k] = all[pick].to_string();
                if cf.chance(1, 2) && starts.get(k).is_some() {
                    // and the stream ends inside that message
                    let a = starts[k];
                    let b = starts.get(k + 1).copied().unwrap_or(stream.len());
                    if b > a + 1 {
                        let cut = a + 1 + cf.below((b - a - 1) as u64) as usize;
                        stream.truncate(cut);
                        names.truncate(k + 1);
                        starts.truncate(k + 1);
                        bounds.retain(|b| *b < cut);
                        wrong_desc.push_str(&format!(", stream ends at {}", cut));
                    }
                }
            }
        }
        let end_error = if cf.chance(1, 5) { "ConnectionReset" } else { "" };
        let kind = if fault_at.is_none() && cf.chance(1, 6) && wrong_desc.is_empty() { "write" } else { "read" };
        let total = stream.len() + 16;
        json!({"kind": kind, "label": format!("{}:{}", case.label(), names.join("+")), "case": case_json(&case), "names": names, "stream": bytes_to_json(&stream),
            "bounds": bounds, "starts": starts, "entry": entry, "end_error": end_error, "enumerated": false, "fault": fault_desc, "wrong_expectation": wrong_desc,
            "sched_t": sched_json(&Schedule::random(&mut sr, total, false)), "sched_a": sched_json(&Schedule::random(&mut sr, total, false)),
            "sched_s": sched_json(&Schedule::random(&mut sr, total, true))})
    }

    fn exec(&self, sc: &Value) -> Outcome {
        let mut o = Outcome::default();
        let case = case_of(&sc["case"]);
        let names: Vec<String> = sc["names"].as_array().map(|a| a.iter().map(|x| x.as_str().unwrap_or("").to_string()).collect()).unwrap_or_default();
        let stream = json_to_bytes(&sc["stream"]);
        let st = sched_of(&sc["sched_t"]);
        let sa = sched_of(&sc["sched_a"]);
        let ss = sched_of(&sc["sched_s"]);
        let whole = Schedule::whole();
        let mut log = Fnv::new();
        o.bytes += stream.len() as u64;
        if sc["kind"] == "write" {
            // three writer flavours must emit identical bytes
            let mut outs: Vec<(String, Option<Vec<u8>>)> = Vec::new();
            for (fl, sched, tag) in [(Flavour::Sync, &whole, "sync"), (Flavour::Sync, &ss, "sync-chunked"), (Flavour::Tokio, &st, "tokio"), (Flavour::Astd, &sa, "astd")] {
                let mut w = SimWriter::new(sched);
                let budget = 16 * stream.len() as u64 + 4096;
                let r = guarded(|| match case.login {
                    Some(v) => {
                        // first message of the stream only
                        login_write_bytes(v, case.dir, &stream, fl, &mut w, budget).map(|x| (x.result, x.budget_exceeded))
                    }
                    None => match read_plain(case.exp, case.dir, &stream).0 {
                        Ok(m) => {
                            let x = write_enum(&m, fl, None, &mut w, budget);
                            Some((x.result, x.budget_exceeded))
                        }
                        Err(_) => None,
                    },
                });
                match r {
                    Err((msg, loc)) => {
                        o.count("skipped_writer_panics", 1);
                        log.str(&panic_sig(&msg, &loc));
                        outs.push((tag.to_string(), None));
                    }
                    Ok(None) => {
                        o.count("skipped_frame_not_accepted", 1);
                        return o;
                    }
                    Ok(Some((res, exceeded))) => {
                        if exceeded {
                            o.violate("bounded_liveness", format!("write-stall:{}", tag), format!("{} writer did not complete within the step budget", tag));
                        }
                        if res.is_err() {
                            outs.push((tag.to_string(), None));
                        } else {
                            outs.push((tag.to_string(), Some(w.data.clone())));
                        }
                        o.count("write_pendings", w.stats.pendings);
                        o.count("write_short_chunks", w.stats.chunks.saturating_sub(1));
                        log.u64(w.log.0);
                    }
                }
            }
            let reference = outs[0].1.clone();
            for (tag, b) in outs.iter().skip(1) {
                if *b != reference {
                    o.violate("writers_agree", format!("writer-differs:{}:{}", tag, case.label().split(':').next().unwrap_or("")), format!("{}: {} writer emitted {} where the blocking writer emitted {}", sc["label"].as_str().unwrap_or(""), tag, b.as_ref().map(|x| hex(x)).unwrap_or("an error/panic".into()).chars().take(120).collect::<String>(), reference.as_ref().map(|x| hex(x)).unwrap_or("an error/panic".into()).chars().take(120).collect::<String>()));
                }
            }
            // world: the three flavours of the ENCRYPTED writers are separate copies too (and compressed messages override them)
            if case.login.is_none() {
                if let Ok(m) = read_plain(case.exp, case.dir, &stream).0 {
                    let mut eouts: Vec<(String, Option<Vec<u8>>)> = Vec::new();
                    for (fl, sched, tag) in [(Flavour::Sync, &whole, "sync"), (Flavour::Sync, &ss, "sync-chunked"), (Flavour::Tokio, &st, "tokio"), (Flavour::Astd, &sa, "astd")] {
                        let mut crypto = session_crypto(case.exp, [9u8; 40]);
                        let enc = match case.dir {
                            Dir::Client => &mut crypto.client_enc,
                            Dir::Server => &mut crypto.server_enc,
                        };
                        let mut w = SimWriter::new(sched);
                        let budget = 16 * stream.len() as u64 + 4096;
                        match guarded(|| write_enum(&m, fl, Some(enc), &mut w, budget)) {
                            Err((msg, loc)) => {
                                o.count("skipped_writer_panics", 1);
                                log.str(&panic_sig(&msg, &loc));
                                eouts.push((tag.to_string(), None));
                            }
                            Ok(x) => {
                                if x.budget_exceeded {
                                    o.violate("bounded_liveness", format!("write-stall-encrypted:{}", tag), format!("{} encrypted writer did not complete within the step budget", tag));
                                }
                                eouts.push((tag.to_string(), if x.result.is_err() { None } else { Some(w.data.clone()) }));
                                log.u64(w.log.0);
                            }
                        }
                    }
                    let reference = eouts[0].1.clone();
                    for (tag, b) in eouts.iter().skip(1) {
                        if *b != reference {
                            o.violate("writers_agree", format!("writer-differs-encrypted:{}:{}", tag, case.label().split(':').next().unwrap_or("")), format!("{}: {} encrypted writer emitted {} where the blocking encrypted writer emitted {}", sc["label"].as_str().unwrap_or(""), tag, b.as_ref().map(|x| hex(x)).unwrap_or("an error/panic".into()).chars().take(120).collect::<String>(), reference.as_ref().map(|x| hex(x)).unwrap_or("an error/panic".into()).chars().take(120).collect::<String>()));
                        }
                    }
                    o.count("encrypted_writer_comparisons", 1);
                }
            }
            o.count("write_runs", 1);
            o.log_hash = log.0;
            o.nontrivial = true;
            return o;
        }
        let entry0 = entry_of(&sc["entry"]);
        let end_error = match sc["end_error"].as_str().unwrap_or("") {
            "ConnectionReset" => Some(std::io::ErrorKind::ConnectionReset),
            _ => None,
        };
        let (refs, refp, _, _, _, _) = read_seq(&case, &names, &entry0, Flavour::Sync, &stream, &whole, end_error, &mut o, false);
        if refs.iter().any(|x| matches!(&x.0, Err(e) if e.outer == "HARNESS")) {
            o.count("entry_unavailable", 1);
            return o;
        }
        let bounds: Vec<usize> = sc["bounds"].as_array().map(|a| a.iter().filter_map(|x| x.as_u64().map(|y| y as usize)).collect()).unwrap_or_default();
        let mut inside = false;
        for (fl, sched, tag) in [(Flavour::Tokio, &st, "tokio"), (Flavour::Astd, &sa, "astd"), (Flavour::Sync, &ss, "sync-chunked")] {
            let (got, gotp, stats, splits, pends, rlog) = read_seq(&case, &names, &entry0, fl, &stream, sched, end_error, &mut o, false);
            log.u64(rlog);
            o.count(&format!("{}_pendings", tag), stats.pendings);
            o.count(&format!("{}_chunks", tag), stats.chunks);
            o.count("interrupts", stats.interrupts);
            for b in splits.iter() {
                if *b > 0 && *b < stream.len() {
                    inside = true;
                    if bounds.contains(b) {
                        o.count("probe_split_at_field_boundary", 1);
                        if pends.contains(b) {
                            o.count("probe_split_and_pending_at_field_boundary", 1);
                        }
                    } else {
                        o.count("probe_split_inside_field", 1);
                    }
                }
            }
            let target = case.label().split(':').next().unwrap_or("").to_string();
            if gotp != refp {
                o.violate("readers_agree", format!("differs:{}:{}:problem", tag, target), format!("{}: {} reader: {:?}, blocking whole-buffer reader: {:?}", sc["label"].as_str().unwrap_or(""), tag, gotp, refp));
                continue;
            }
            if got.len() != refs.len() {
                o.violate("readers_agree", format!("differs:{}:{}:count", tag, target), format!("{}: {} reader returned {} results, reference {}", sc["label"].as_str().unwrap_or(""), tag, got.len(), refs.len()));
                continue;
            }
            for (k, (g, r)) in got.iter().zip(refs.iter()).enumerate() {
                let same = match (&g.0, &r.0) {
                    (Ok(a), Ok(b)) => a == b && g.1 == r.1,
                    (Err(a), Err(b)) => a == b,
                    _ => false,
                };
                if !same {
                    let d = |x: &Result<String, ErrSig>| match x {
                        Ok(s) => format!("Ok({})", s.chars().take(100).collect::<String>()),
                        Err(e) => format!("Err({})", e.short()),
                    };
                    let cls = match (&g.0, &r.0) {
                        (Ok(_), Ok(_)) => "value",
                        (Err(_), Err(_)) => "errkind",
                        (Ok(_), Err(_)) => "ok-vs-err",
                        _ => "err-vs-ok",
                    };
                    o.violate("readers_agree", format!("differs:{}:{}:{}:{}", tag, target, cls, names.get(k).cloned().unwrap_or_default()), format!("{}: message #{}: {} reader returned {} after {} bytes, blocking whole-buffer reader {} after {} bytes", sc["label"].as_str().unwrap_or(""), k, tag, d(&g.0), g.1, d(&r.0), r.1));
                    break;
                }
            }
        }
        // world: the decrypting readers (headers encrypted with the session key at every message start)
        if case.login.is_none() {
            let starts: Vec<usize> = sc["starts"].as_array().map(|a| a.iter().filter_map(|x| x.as_u64().map(|y| y as usize)).collect()).unwrap_or_else(|| vec![0]);
            let mut crypto = session_crypto(case.exp, [9u8; 40]);
            let mut enc_stream = stream.clone();
            for s in &starts {
                if *s >= enc_stream.len() {
                    continue;
                }
                let hl = match case.dir {
                    Dir::Client => 6,
                    Dir::Server => {
                        if case.exp == Exp::Wrath && enc_stream[*s] & 0x80 != 0 {
                            5
                        } else {
                            4
                        }
                    }
                };
                let end = (*s + hl).min(enc_stream.len());
                let e = match case.dir {
                    Dir::Client => &mut crypto.client_enc,
                    Dir::Server => &mut crypto.server_enc,
                };
                e.encrypt(&mut enc_stream[*s..end]);
            }
            let (erefs, erefp, _, _, _, _) = read_seq(&case, &names, &entry0, Flavour::Sync, &enc_stream, &whole, end_error, &mut o, true);
            for (fl, sched, tag) in [(Flavour::Tokio, &st, "tokio"), (Flavour::Astd, &sa, "astd"), (Flavour::Sync, &ss, "sync-chunked")] {
                let (got, gotp, _, _, _, rlog) = read_seq(&case, &names, &entry0, fl, &enc_stream, sched, end_error, &mut o, true);
                log.u64(rlog);
                let target = case.label().split(':').next().unwrap_or("").to_string();
                let same = gotp == erefp
                    && got.len() == erefs.len()
                    && got.iter().zip(erefs.iter()).all(|(g, r)| match (&g.0, &r.0) {
                        (Ok(a), Ok(b)) => a == b && g.1 == r.1,
                        (Err(a), Err(b)) => a == b,
                        _ => false,
                    });
                if !same {
                    let d = |x: &Vec<(Result<String, ErrSig>, usize)>| x.iter().map(|y| match &y.0 { Ok(s) => format!("Ok({})@{}", s.chars().take(40).collect::<String>(), y.1), Err(e) => format!("Err({})@{}", e.short(), y.1) }).collect::<Vec<_>>().join(", ");
                    o.violate("readers_agree", format!("differs-encrypted:{}:{}", tag, target), format!("{}: decrypting {} reader returned [{}] {:?}, decrypting blocking whole-buffer reader [{}] {:?}", sc["label"].as_str().unwrap_or(""), tag, d(&got), gotp, d(&erefs), erefp));
                }
                o.count("encrypted_reader_comparisons", 1);
            }
        }
        o.count("reads_ok_in_reference", refs.iter().filter(|x| x.0.is_ok()).count() as u64);
        o.count("reads_err_in_reference", refs.iter().filter(|x| x.0.is_err()).count() as u64);
        o.count(if sc["enumerated"] == true { "enumerated_schedules" } else { "sampled_schedules" }, 1);
        for v in &o.violations {
            log.str(&v.sig);
        }
        for r in &refs {
            match &r.0 {
                Ok(_) => log.u8(1),
                Err(e) => log.str(&e.short()),
            }
        }
        o.log_hash = log.0;
        o.nontrivial = inside || stream.len() <= 1;
        o
    }

    fn shrink(&self, sc: &Value) -> Vec<Value> {
        let mut out = Vec::new();
        for key in ["sched_t", "sched_a", "sched_s"] {
            for t in shrink_sched(&sched_of(&sc[key])).into_iter().take(6) {
                let mut s = sc.clone();
                s[key] = sched_json(&t);
                out.push(s);
            }
        }
        let b = json_to_bytes(&sc["stream"]);
        let names = sc["names"].as_array().cloned().unwrap_or_default();
        if names.len() > 1 {
            // keep only the first message's worth of names (the stream stays; later bytes are simply unread)
            let mut s = sc.clone();
            s["names"] = Value::Array(names[..names.len() - 1].to_vec());
            out.push(s);
        }
        if b.len() > 4 {
            let mut s = sc.clone();
            s["stream"] = bytes_to_json(&b[..b.len() - 1]);
            out.push(s);
        }
        if sc["entry"] != "enum" {
            let mut s = sc.clone();
            s["entry"] = json!("enum");
            out.push(s);
        }
        if sc["end_error"] != "" {
            let mut s = sc.clone();
            s["end_error"] = json!("");
            out.push(s);
        }
        out
    }

    fn extra_evidence(&self) -> Value {
        let fb: usize = self.frames_q.iter().map(|f| f.bounds.len()).sum();
        json!({"messages_the_model_peer_cannot_encode": unmodelled_cases(&self.ctx, &self.cases), "enumerated_frames_quick": self.frames_q.len(), "enumerated_frames_thorough": self.frames_t.len(), "field_boundaries_in_enumerated_frames_quick": fb,
               "note_field_boundary_coverage": "every split position 1..n-1 of every enumerated frame is exercised once with a Pending at the split, hence every field boundary is crossed by a split and by a Pending (counter probe_split_and_pending_at_field_boundary)"})
    }
}
