//! C13 — UpdateMask accessors, dirty tracking and wire form agree with the field table.
//! Simulated parties: a server holding one object as a library Update* value, the stream, and a
//! client replica. The server applies a history of typed setter / dirty-tracking operations;
//! "flush" sends an SMSG_UPDATE_OBJECT built with the public API and calls dirty_reset();
//! "restart" wipes the replica (client crash) and the server calls mark_fully_dirty().
//! Reference model: present/dirty sets and a value map whose offsets and widths come only from
//! the published table in wowm_language/src/types/update-mask.md.

use crate::core::*;
use crate::model::*;
use crate::rng::{Fnv, Rng};
use crate::sess::*;
use crate::umask::{load_fields, UField};
use crate::umglue::*;
use serde_json::{json, Value};
use std::collections::{BTreeMap, BTreeSet};

const KINDS: [&str; 7] = ["Item", "Container", "Unit", "Player", "GameObject", "DynamicObject", "Corpse"];

fn type_bits(kind: &str) -> u32 {
    0x01 | match kind {
        "Item" => 0x02,
        "Container" => 0x04 | 0x02,
        "Unit" => 0x08,
        "Player" => 0x10 | 0x08,
        "GameObject" => 0x20,
        "DynamicObject" => 0x40,
        _ => 0x80,
    }
}

/// alphabet of the bounded-exhaustive histories: set of one of up to 5 representative fields, dirty_reset, mark_fully_dirty, flush
const BX_DEPTH: u32 = 4;

pub struct C13 {
    tables: Vec<Vec<UField>>, // per exp
    enumerated: Vec<(Exp, String, String, String, bool)>, // exp, kind, field, argty, via builder
    /// bounded-exhaustive part: per (exp, kind) the representative setters (field, argty)
    bx: Vec<(Exp, String, Vec<(String, String)>)>,
}

impl C13 {
    pub fn new() -> C13 {
        let mut tables = Vec::new();
        let mut enumerated = Vec::new();
        for e in Exp::ALL {
            match load_fields(e) {
                Ok(t) => tables.push(t),
                Err(er) => {
                    eprintln!("HARNESS ERROR: update field table: {}", er);
                    std::process::exit(2);
                }
            }
            for (k, f, t) in um_setters(e) {
                enumerated.push((e, k.to_string(), f.to_string(), t.to_string(), false));
                enumerated.push((e, k.to_string(), f.to_string(), t.to_string(), true));
            }
        }
        let mut c = C13 { tables, enumerated, bx: Vec::new() };
        // representative fields per object kind: the first setter (by table offset) of every argument type that is not
        // inherited from Object, plus the one at the highest offset (the mask arrays must grow for it)
        for e in Exp::ALL {
            for k in KINDS {
                let mut own: Vec<(u16, String, String)> = um_setters(e).iter().filter(|s| s.0 == k && ["I", "F", "G", "B", "S"].contains(&s.2)).filter_map(|s| c.lookup(e, k, s.1).map(|u| (u.offset, s.1.to_string(), s.2.to_string()))).collect();
                own.sort();
                let mut rep: Vec<(String, String)> = Vec::new();
                for ty in ["I", "F", "G", "B", "S"] {
                    if let Some(x) = own.iter().filter(|x| x.0 >= 6).find(|x| x.2 == ty) {
                        rep.push((x.1.clone(), x.2.clone()));
                    }
                }
                if let Some(last) = own.last() {
                    if !rep.iter().any(|r| r.0 == last.1) {
                        rep.push((last.1.clone(), last.2.clone()));
                    }
                }
                rep.truncate(5);
                if !rep.is_empty() {
                    c.bx.push((e, k.to_string(), rep));
                }
            }
        }
        c
    }
    /// number of histories of length 1..=BX_DEPTH over an alphabet of `a` operations
    fn bx_count(a: u64) -> u64 {
        (1..=BX_DEPTH).map(|d| a.pow(d)).sum()
    }
    fn bx_total(&self) -> u64 {
        self.bx.iter().map(|b| Self::bx_count(b.2.len() as u64 + 3)).sum()
    }
    /// the table range of a structured field must not overlap any other Player/Unit/Object field, otherwise the
    /// reference model cannot tell the accessors apart (the published TBC table lists PLAYER_VISIBLE_ITEM as
    /// 0x158 + 228 words, which runs into PLAYER_FIELD_INV at 0x1e6)
    fn struct_range_is_exclusive(&self, e: Exp, tname: &str) -> bool {
        let t = self.table(e);
        let Some(u) = t.iter().find(|u| u.name == tname && u.kind == "Player") else { return false };
        let (lo, hi) = (u.offset, u.offset + u.size);
        !t.iter().any(|v| v.name != tname && ["Object", "Unit", "Player"].contains(&v.kind.as_str()) && v.offset < hi && v.offset + v.size > lo)
    }
    fn table(&self, e: Exp) -> &Vec<UField> {
        &self.tables[Exp::ALL.iter().position(|x| *x == e).unwrap()]
    }
    fn lookup(&self, e: Exp, kind: &str, field: &str) -> Option<&UField> {
        let up = field.to_uppercase();
        let lineage: &[&str] = match kind {
            "Item" => &["Object", "Item"],
            "Container" => &["Object", "Item", "Container"],
            "Unit" => &["Object", "Unit"],
            "Player" => &["Object", "Unit", "Player"],
            "GameObject" => &["Object", "GameObject"],
            "DynamicObject" => &["Object", "DynamicObject"],
            _ => &["Object", "Corpse"],
        };
        self.table(e).iter().find(|u| u.name == up && lineage.contains(&u.kind.as_str()))
    }
}

fn arg_json(a: &Arg) -> Value {
    match a {
        Arg::I(v) => json!({"I": v}),
        Arg::F(v) => json!({"F": v.to_bits()}),
        Arg::G(v) => json!({"G": format!("{}", v)}),
        Arg::B(a, b, c, d) => json!({"B": [a, b, c, d]}),
        Arg::S(a, b) => json!({"S": [a, b]}),
        Arg::SG(s, v) => json!({"SG": [s, format!("{}", v)]}),
    }
}

fn arg_of(v: &Value) -> Arg {
    if let Some(x) = v.get("I") {
        Arg::I(x.as_i64().unwrap_or(0) as i32)
    } else if let Some(x) = v.get("F") {
        Arg::F(f32::from_bits(x.as_u64().unwrap_or(0) as u32))
    } else if let Some(x) = v.get("G") {
        Arg::G(x.as_str().unwrap_or("0").parse().unwrap_or(0))
    } else if let Some(x) = v.get("SG") {
        Arg::SG(x[0].as_u64().unwrap_or(0) as u8, x[1].as_str().unwrap_or("0").parse().unwrap_or(0))
    } else if let Some(x) = v.get("B") {
        let g = |i: usize| x[i].as_u64().unwrap_or(0) as u8;
        Arg::B(g(0), g(1), g(2), g(3))
    } else {
        let x = &v["S"];
        Arg::S(x[0].as_u64().unwrap_or(0) as u16, x[1].as_u64().unwrap_or(0) as u16)
    }
}

fn unique_arg(ty: &str, n: u32) -> Arg {
    // every written value is unique so that each read is attributable to one write
    let x = 0x0101_0101u32.wrapping_mul(n % 251 + 1) ^ (n << 8) ^ 0x5A00_0000;
    match ty {
        "I" => Arg::I(x as i32),
        "F" => Arg::F(f32::from_bits((x & 0x7F7F_FFFF) | 0x0080_0000)), // finite, non-NaN
        "G" => Arg::G(((x as u64) << 32) | (n as u64 + 1)),
        "B" => Arg::B(x as u8, (x >> 8) as u8, (x >> 16) as u8, (x >> 24) as u8),
        // enumerator-typed bytes: values that are declared in every expansion
        "R" => Arg::B(1 + (n % 4) as u8, 1 + ((n / 4) % 4) as u8, ((n / 16) % 2) as u8, ((n / 32) % 4) as u8),
        "U" => Arg::B((n % 4) as u8, (x >> 8) as u8, (x >> 16) as u8, (x >> 24) as u8),
        // every slot value a u8 can hold comes up (slots the expansion does not declare are refused by the adapter and the
        // operation counts as not applicable); the upper half is favoured: offsets computed in too narrow a type break there
        "SG" => Arg::SG(if n % 3 == 0 { 100 + ((n / 3) % 156) as u8 } else { (n % 160) as u8 }, ((x as u64) << 32) | (n as u64 + 1)),
        _ => Arg::S(x as u16, (x >> 16) as u16),
    }
}

/// words the model writes for a typed set
fn words(a: &Arg) -> Vec<u32> {
    match a {
        Arg::I(v) => vec![*v as u32],
        Arg::F(v) => vec![v.to_bits()],
        Arg::G(v) => vec![*v as u32, (*v >> 32) as u32],
        Arg::B(a, b, c, d) => vec![u32::from_le_bytes([*a, *b, *c, *d])],
        // the table does not fix the order of the halves of a TWO_SHORT; the library stores the first argument in the upper half
        Arg::S(a, b) => vec![((*a as u32) << 16) | *b as u32],
        Arg::SG(_, v) => vec![*v as u32, (*v >> 32) as u32],
    }
}

/// offset of the first word an accessor call touches, relative to the table entry (per-slot arrays)
fn sub_offset(a: &Arg) -> u16 {
    match a {
        Arg::SG(slot, _) => *slot as u16 * 2,
        _ => 0,
    }
}

fn expect_got(ty: &str, vals: &BTreeMap<u16, u32>, off: u16) -> Got {
    let Some(w0) = vals.get(&off).copied() else { return Got::Absent };
    match ty {
        "I" => Got::I(w0 as i32),
        "F" => Got::F(w0),
        "G" | "SG" => match vals.get(&(off + 1)) {
            Some(w1) => Got::G(w0 as u64 | ((*w1 as u64) << 32)),
            None => Got::Absent, // not judged by the caller (partial guid)
        },
        "B" | "R" | "U" => {
            let b = w0.to_le_bytes();
            Got::B(b[0], b[1], b[2], b[3])
        }
        _ => Got::S((w0 >> 16) as u16, w0 as u16),
    }
}

#[derive(Default, Clone)]
struct RefModel {
    present: BTreeSet<u16>,
    dirty: BTreeSet<u16>,
    value: BTreeMap<u16, u32>,
    blocks: usize,
}

impl RefModel {
    fn touch(&mut self, idx: u16, v: u32, mark_dirty: bool) {
        self.present.insert(idx);
        self.value.insert(idx, v);
        let need = idx as usize / 32 + 1;
        if need > self.blocks {
            self.blocks = need;
        }
        if mark_dirty {
            self.dirty.insert(idx);
        }
    }
}

/// model decoder of the Values block carried by SMSG_UPDATE_OBJECT (written from update-mask.md and the wowm of the message)
fn decode_values_message(exp: Exp, bytes: &[u8]) -> Result<(u64, usize, Vec<u32>, Vec<u32>), String> {
    let h = parse_world_header(exp, Dir::Server, bytes).ok_or("short header")?;
    if h.size_field + h.size_len != bytes.len() {
        return Err(format!("header announces {} bytes after the size field, {} follow", h.size_field, bytes.len() - h.size_len));
    }
    let b = &bytes[h.header_len..];
    let mut p = 0usize;
    let rd = |p: &mut usize, n: usize| -> Result<&[u8], String> {
        if *p + n > b.len() {
            return Err("body too short".into());
        }
        let s = &b[*p..*p + n];
        *p += n;
        Ok(s)
    };
    let count = u32::from_le_bytes(rd(&mut p, 4)?.try_into().unwrap());
    if exp != Exp::Wrath {
        let _has_transport = rd(&mut p, 1)?;
    }
    if count != 1 {
        return Err(format!("amount_of_objects = {}", count));
    }
    let ut = rd(&mut p, 1)?[0];
    if ut != 0 {
        return Err(format!("update_type = {}", ut));
    }
    let mask = rd(&mut p, 1)?[0];
    let mut guid = 0u64;
    for i in 0..8 {
        if mask & (1 << i) != 0 {
            guid |= (rd(&mut p, 1)?[0] as u64) << (8 * i);
        }
    }
    let nblocks = rd(&mut p, 1)?[0] as usize;
    let mut blocks = Vec::new();
    for _ in 0..nblocks {
        blocks.push(u32::from_le_bytes(rd(&mut p, 4)?.try_into().unwrap()));
    }
    let nvals: u32 = blocks.iter().map(|x| x.count_ones()).sum();
    let mut vals = Vec::new();
    for _ in 0..nvals {
        vals.push(u32::from_le_bytes(rd(&mut p, 4)?.try_into().unwrap()));
    }
    if p != b.len() {
        return Err(format!("{} trailing bytes after the values", b.len() - p));
    }
    Ok((guid, nblocks, blocks, vals))
}

impl Check for C13 {
    fn id(&self) -> &'static str {
        "C13"
    }
    fn level(&self) -> &'static str {
        "exploration"
    }
    fn rule(&self) -> String {
        "Each run is a history of operations applied to one library Update{Item,Container,Unit,Player,GameObject,DynamicObject,Corpse} object (3 expansions) on a simulated server and to a reference model, with a client replica fed through the wire: typed builder setters + finalize, typed setters and getters on the built mask (every generated accessor with a standard signature is reachable through a dispatch table generated from impls.rs), dirty_reset, mark_fully_dirty, has_any_dirty_fields, is_bit_dirty, flush (send SMSG_UPDATE_OBJECT with a Values block, then dirty_reset) and client restart (replica wiped, mark_fully_dirty, next flush must carry every present field). Enumerated part: for every generated setter and builder setter, a fresh object, one set with a unique value (custom signatures too: item slots, race/class/gender/power, stand state, VisibleItem and SkillInfo structures), one flush: exactly the offsets [table.offset, table.offset+words) must appear with the bit layout the type implies. Bounded-exhaustive part: per expansion and object kind, EVERY history of length 1-4 over {set of one of up to 5 representative fields (first int, float, guid, bytes, two-short field of the kind and its highest field), dirty_reset, mark_fully_dirty, flush}, with getter and dirty queries after every step. Sampled part: random histories of 1-40 operations biased to a small field set per kind. Oracles per operation: getter = value last set; flushed block decoded by the model's decoder: block count, mask bits = present AND dirty, values ascending, nothing else, header size and declared size = bytes written; when the block carries the object-type field the library's own decoder must return an object of the written KIND carrying exactly the written fields; dirty queries where the statement fixes them. Non-trivial: at least one flush after a set; distinct = distinct event-log hashes.".into()
    }
    fn assumptions(&self) -> Vec<String> {
        vec![
            "offsets, sizes and types come only from the published table in wowm_language/src/types/update-mask.md".into(),
            "structured accessors (VisibleItem, SkillInfo) are judged by round trip and by staying inside the table range of their field; where the published table itself lists overlapping ranges (TBC PLAYER_VISIBLE_ITEM vs PLAYER_FIELD_INV) they are not used and the overlap is reported in the evidence".into(),
            "dirty queries outside what the statement fixes (index beyond the current mask, has_any_dirty_fields after mark_fully_dirty) are not judged and out-of-range indices are not generated".into(),
        ]
    }
    fn components(&self) -> Value {
        json!({"real": ["wow_world_messages::{vanilla,tbc,wrath}::Update* types, builders, all generated accessors", "update_mask_common::inners (bit bookkeeping, serialisation)", "SMSG_UPDATE_OBJECT writer and ServerOpcodeMessage reader"],
               "simulated": ["server object history, client replica, client crash/restart", "reference model from the published field table", "model wire decoder"],
               "not_exercised": ["CreateObject blocks with movement data (MovementBlock sizing has a known C02 finding)"]})
    }
    fn plan(&self, tier: Tier) -> (u64, u64) {
        (self.enumerated.len() as u64 + self.bx_total(), match tier {
            Tier::Quick => env_u64("VERIF_C13_RUNS", 60_000),
            Tier::Thorough => env_u64("VERIF_C13_RUNS", 3_000_000),
        })
    }
    fn gen(&self, i: u64, seed: u64, _tier: Tier) -> Value {
        if (i as usize) < self.enumerated.len() {
            let (e, k, f, t, via_builder) = &self.enumerated[i as usize];
            let a = arg_json(&unique_arg(t, i as u32));
            let ops = if *via_builder {
                json!([{"op": "bset", "f": f, "t": t, "a": a}, {"op": "finalize"}, {"op": "get", "f": f, "t": t, "slot": a["SG"][0]}, {"op": "flush"}])
            } else {
                json!([{"op": "finalize"}, {"op": "flush"}, {"op": "set", "f": f, "t": t, "a": a}, {"op": "get", "f": f, "t": t, "slot": a["SG"][0]}, {"op": "has_any_dirty"}, {"op": "flush"}, {"op": "has_any_dirty"}])
            };
            return json!({"label": format!("{}:{}:{}", e.name(), k, f), "exp": e.name(), "kind": k, "ops": ops, "enumerated": true});
        }
        let mut j = i - self.enumerated.len() as u64;
        if j < self.bx_total() {
            // bounded-exhaustive: every history of length 1..=BX_DEPTH over {set r1..rk, dirty_reset, mark_fully_dirty, flush}
            // for the representative fields of one (expansion, object kind); getters and queries are interleaved by exec's oracles
            for (e, kind, rep) in &self.bx {
                let a = rep.len() as u64 + 3;
                let n = Self::bx_count(a);
                if j >= n {
                    j -= n;
                    continue;
                }
                let mut len = 1u32;
                while j >= a.pow(len) {
                    j -= a.pow(len);
                    len += 1;
                }
                let mut ops = vec![json!({"op": "finalize"})];
                let mut code = j;
                let mut counter = 0x5000u32;
                for _ in 0..len {
                    let sym = (code % a) as usize;
                    code /= a;
                    if sym < rep.len() {
                        counter += 1;
                        let (f, t) = &rep[sym];
                        ops.push(json!({"op": "set", "f": f, "t": t, "a": arg_json(&unique_arg(t, counter))}));
                        ops.push(json!({"op": "get", "f": f, "t": t, "slot": 0}));
                    } else {
                        match sym - rep.len() {
                            0 => ops.push(json!({"op": "dirty_reset"})),
                            1 => ops.push(json!({"op": "mark_fully_dirty"})),
                            _ => ops.push(json!({"op": "flush"})),
                        }
                    }
                    ops.push(json!({"op": "has_any_dirty"}));
                }
                for (f, t) in rep {
                    ops.push(json!({"op": "get", "f": f, "t": t, "slot": 0}));
                }
                ops.push(json!({"op": "flush"}));
                return json!({"label": format!("{}:{}:bx", e.name(), kind), "exp": e.name(), "kind": kind, "ops": ops, "enumerated": true, "bounded_exhaustive": true});
            }
        }
        let mut rng = Rng::new(seed);
        let e = *rng.pick(&Exp::ALL);
        let kind = *rng.pick(&KINDS);
        let setters: Vec<&(&str, &str, &str)> = um_setters(e).iter().filter(|s| s.0 == kind).collect();
        let hot: Vec<&(&str, &str, &str)> = (0..6).map(|_| *rng.pick(&setters)).collect();
        let n = 1 + rng.below(40);
        let mut ops = Vec::new();
        let mut finalized = false;
        let mut counter = (seed & 0xFFFF) as u32;
        for _ in 0..n {
            let pickf = |rng: &mut Rng| -> (&str, &str) {
                let s = if rng.chance(7, 10) { *rng.pick(&hot) } else { *rng.pick(&setters) };
                (s.1, s.2)
            };
            if !finalized {
                if rng.chance(1, 3) {
                    ops.push(json!({"op": "finalize"}));
                    finalized = true;
                } else {
                    let (f, t) = pickf(&mut rng);
                    counter += 1;
                    ops.push(json!({"op": "bset", "f": f, "t": t, "a": arg_json(&unique_arg(t, counter))}));
                }
                continue;
            }
            let (which, n_idx) = if rng.chance(1, 2) { ("visible_item", 19) } else { ("skill_info", 128) };
            let tname = if which == "visible_item" { "PLAYER_VISIBLE_ITEM" } else { "PLAYER_SKILL_INFO" };
            if kind == "Player" && rng.chance(1, 8) && self.struct_range_is_exclusive(e, tname) {
                // structured accessors (visible item / skill info) of the player
                counter += 1;
                let idx = if rng.chance(1, 2) { rng.below(4) } else { rng.below(n_idx) };
                let probe = rng.chance(1, 4);
                ops.push(json!({"op": "struct_set", "which": which, "idx": idx, "n": counter.wrapping_mul(2654435761), "nb": (idx + 1 + rng.below(3)) % n_idx, "probe_redirty": probe}));
                continue;
            }
            match rng.below(16) {
                0..=5 => {
                    let (f, t) = pickf(&mut rng);
                    if rng.chance(1, 6) {
                        // write the value the field already holds (must still mark the field dirty)
                        let prev = ops.iter().rev().find(|o: &&Value| (o["op"] == "set" || o["op"] == "bset") && o["f"] == f).cloned();
                        if let Some(p) = prev {
                            ops.push(json!({"op": "set", "f": f, "t": t, "a": p["a"], "same": true}));
                            continue;
                        }
                    }
                    counter += 1;
                    ops.push(json!({"op": "set", "f": f, "t": t, "a": arg_json(&unique_arg(t, counter))}));
                }
                6..=8 => {
                    let (f, t) = pickf(&mut rng);
                    ops.push(json!({"op": "get", "f": f, "t": t, "slot": if rng.chance(1, 2) { rng.below(19) } else { rng.below(160) }}));
                }
                9 => ops.push(json!({"op": "dirty_reset"})),
                10 => ops.push(json!({"op": "mark_fully_dirty"})),
                11 => ops.push(json!({"op": "has_any_dirty"})),
                12 => {
                    // biased to the first and last bit of a block
                    let blk = rng.below(44);
                    let bit = match rng.below(4) {
                        0 => blk * 32 + 31,
                        1 => blk * 32,
                        _ => rng.below(1400),
                    };
                    ops.push(json!({"op": "is_bit_dirty", "bit": bit}));
                }
                13 => ops.push(json!({"op": "restart"})),
                _ => ops.push(json!({"op": "flush"})),
            }
        }
        if !finalized {
            ops.push(json!({"op": "finalize"}));
        }
        ops.push(json!({"op": "flush"}));
        json!({"label": format!("{}:{}", e.name(), kind), "exp": e.name(), "kind": kind, "ops": ops, "enumerated": false})
    }

    fn exec(&self, sc: &Value) -> Outcome {
        let mut o = Outcome::default();
        let exp = exp_of(&sc["exp"]);
        let kind = sc["kind"].as_str().unwrap_or("Item").to_string();
        let ops = sc["ops"].as_array().cloned().unwrap_or_default();
        let mut log = Fnv::new();
        let Some(mut builder) = um_new_builder(exp, &kind).map(Some) else {
            o.violate("HARNESS", "harness-panic:no-builder".into(), "no builder".into());
            return o;
        };
        let mut mask: Option<AnyMask> = None;
        let mut m = RefModel::default();
        m.touch(2, type_bits(&kind), false);
        let mut replica: BTreeMap<u16, u32> = BTreeMap::new();
        // structured accessors: the words they touch are learned from the wire; only the range is taken from the table
        let mut tainted: Vec<(u16, u16)> = Vec::new();
        let mut structs: BTreeMap<(String, u16), (String, bool)> = BTreeMap::new(); // value set, freshly set since last flush
        let mut last_op_was_set = false;
        let mut last_op_was_reset = false;
        let mut flushes_after_set = 0u64;
        let mut set_since_flush = false;
        let guid = 0x1122_3344_0000_0001u64;
        let tag = format!("{}:{}", exp.name(), kind);
        for (n, op) in ops.iter().enumerate() {
            let name = op["op"].as_str().unwrap_or("");
            o.ticks += 1;
            log.str(name);
            let was_set = last_op_was_set;
            let was_reset = last_op_was_reset;
            last_op_was_set = false;
            last_op_was_reset = false;
            match name {
                "bset" | "set" => {
                    let f = op["f"].as_str().unwrap_or("");
                    let t = op["t"].as_str().unwrap_or("I");
                    let a = arg_of(&op["a"]);
                    let entry = self.lookup(exp, &kind, f).cloned();
                    let applied = if name == "bset" {
                        match builder.take() {
                            Some(b) => match um_bset(exp, b, f, &a) {
                                Ok(b2) => {
                                    builder = Some(b2);
                                    true
                                }
                                Err(b2) => {
                                    builder = Some(b2);
                                    false
                                }
                            },
                            None => false,
                        }
                    } else {
                        match mask.as_mut() {
                            Some(x) => um_set(exp, x, f, &a),
                            None => false,
                        }
                    };
                    if !applied {
                        o.count("op_not_applicable", 1);
                        continue;
                    }
                    o.count(if name == "bset" { "builder_sets" } else { "sets" }, 1);
                    match entry {
                        None => {
                            // accessor without a table entry: the model cannot follow; stop judging this history
                            o.count("accessor_not_in_table", 1);
                            log.str("untabled");
                            o.log_hash = log.0;
                            return o;
                        }
                        Some(u) => {
                            let w = words(&a);
                            let base = u.offset + sub_offset(&a);
                            if sub_offset(&a) + w.len() as u16 > u.size {
                                o.violate("accessor_addressing", format!("accessor-wider-than-table:{}:{}", tag, f), format!("{}: accessor {} writes {} words, the table lists size {} for {}", tag, f, w.len(), u.size, u.name));
                            }
                            for (k, v) in w.iter().enumerate() {
                                m.touch(base + k as u16, *v, name == "set");
                            }
                        }
                    }
                    if name == "set" {
                        last_op_was_set = true;
                        set_since_flush = true;
                    }
                    let _ = t;
                }
                "struct_set" => {
                    let which = op["which"].as_str().unwrap_or("");
                    let idx = op["idx"].as_u64().unwrap_or(0) as u16;
                    let nb = op["nb"].as_u64().unwrap_or(0) as u16;
                    let seedn = op["n"].as_u64().unwrap_or(1) as u32;
                    let tname = if which == "visible_item" { "PLAYER_VISIBLE_ITEM" } else { "PLAYER_SKILL_INFO" };
                    let (Some(x), Some(u)) = (mask.as_mut(), self.table(exp).iter().find(|u| u.name == tname && u.kind == "Player").cloned()) else { continue };
                    let count = if which == "visible_item" { 19 } else { 128 };
                    let stride = u.size / count;
                    match guarded(|| um_struct_set(exp, x, which, idx, seedn, nb)) {
                        Err((msg, loc)) => {
                            o.violate("getter_returns_last_set", format!("{}:{}", panic_sig(&msg, &loc), tag), format!("{}: op #{} {}({}) panicked: '{}' at {}", tag, n, which, idx, msg, loc));
                            break;
                        }
                        Ok(None) => continue,
                        Ok(Some((set, got, nb_got))) => {
                            o.count("struct_sets", 1);
                            if got != set {
                                o.violate("getter_returns_last_set", format!("struct-getter:{}:{}", tag, which), format!("{}: op #{} {} index {}: set {} but the getter returns {}", tag, n, which, idx, set, got));
                            }
                            let want_nb = structs.get(&(which.to_string(), nb)).map(|x| x.0.clone()).unwrap_or("None".to_string());
                            if nb != idx && nb_got != want_nb {
                                o.violate("getter_returns_last_set", format!("struct-neighbour:{}:{}", tag, which), format!("{}: op #{} after setting {} index {}, index {} reads {} (expected {})", tag, n, which, idx, nb, nb_got, want_nb));
                            }
                            structs.insert((which.to_string(), idx), (set, true));
                            let lo = u.offset + idx * stride;
                            let hi = lo + stride;
                            tainted.push((lo, hi));
                            // which words a setter call marks for sending must not depend on the value the slot held before:
                            // clear the dirty state, set the slot, note the dirty words of its range; clear again, set the
                            // SAME value once more: the same words must be dirty again (they are about to be sent to a client
                            // that may have missed the first update)
                            if op["probe_redirty"] == true {
                                um_dirty_reset(x);
                                let _ = guarded(|| um_struct_set(exp, x, which, idx, seedn, nb));
                                let w1: Vec<u16> = (lo..hi).filter(|b| um_is_bit_dirty(x, *b)).collect();
                                um_dirty_reset(x);
                                let _ = guarded(|| um_struct_set(exp, x, which, idx, seedn, nb));
                                let w2: Vec<u16> = (lo..hi).filter(|b| um_is_bit_dirty(x, *b)).collect();
                                o.count("probe_struct_redirty", 1);
                                if w1 != w2 {
                                    o.violate("dirty_tracking", format!("struct-redirty:{}:{}", tag, which), format!("{}: op #{} {} index {}: a first set after dirty_reset marks words {:?} dirty, setting the same value again after another dirty_reset marks {:?}", tag, n, which, idx, w1, w2));
                                }
                                // the reference model: everything of this history before the probe has been cleared, the slot's words are dirty
                                m.dirty.clear();
                                for b in &w2 {
                                    m.dirty.insert(*b);
                                }
                            }
                            let need = (hi as usize + 31) / 32;
                            if need > m.blocks {
                                m.blocks = need;
                            }
                            last_op_was_set = true;
                            set_since_flush = true;
                        }
                    }
                }
                "finalize" => {
                    if let Some(b) = builder.take() {
                        mask = Some(um_finalize(b));
                        // a freshly built mask is fully dirty in what it holds
                        m.dirty = m.present.clone();
                        set_since_flush = true;
                    }
                }
                "get" => {
                    let f = op["f"].as_str().unwrap_or("");
                    let t = op["t"].as_str().unwrap_or("I");
                    let (Some(x), Some(u)) = (mask.as_ref(), self.lookup(exp, &kind, f)) else { continue };
                    let slot = op["slot"].as_u64().unwrap_or(0) as u8;
                    let off = u.offset + if t == "SG" { slot as u16 * 2 } else { 0 };
                    if t == "SG" && (slot as u16 * 2 + 2 > u.size) {
                        continue;
                    }
                    if (t == "G" || t == "SG") && m.present.contains(&off) != m.present.contains(&(off + 1)) {
                        continue; // half a guid: not judged
                    }
                    let want = expect_got(t, &m.value, off);
                    match um_get(exp, x, f, slot) {
                        None => o.count("getter_missing", 1),
                        Some(got) => {
                            o.count("gets", 1);
                            if got != want {
                                o.violate("getter_returns_last_set", format!("getter:{}:{}", tag, f), format!("{}: op #{} getter {} (slot {}) returned {:?}, reference model holds {:?} (table offset {:#x})", tag, n, f, slot, got, want, off));
                            }
                        }
                    }
                }
                "dirty_reset" => {
                    if let Some(x) = mask.as_mut() {
                        um_dirty_reset(x);
                        m.dirty.clear();
                        for v in structs.values_mut() {
                            v.1 = false;
                        }
                        last_op_was_reset = true;
                    }
                }
                "mark_fully_dirty" => {
                    if let Some(x) = mask.as_mut() {
                        um_mark_fully_dirty(x);
                        m.dirty = (0..(m.blocks * 32) as u16).collect();
                    }
                }
                "has_any_dirty" => {
                    if let Some(x) = mask.as_ref() {
                        let got = um_has_any_dirty_fields(x);
                        if was_set && !got {
                            o.violate("dirty_tracking", format!("has-any-dirty-after-set:{}", tag), format!("{}: op #{} has_any_dirty_fields() is false right after a set", tag, n));
                        }
                        if was_reset && got {
                            o.violate("dirty_tracking", format!("has-any-dirty-after-reset:{}", tag), format!("{}: op #{} has_any_dirty_fields() is true right after dirty_reset()", tag, n));
                        }
                        o.count("dirty_queries", 1);
                    }
                }
                "is_bit_dirty" => {
                    if let Some(x) = mask.as_ref() {
                        let b = op["bit"].as_u64().unwrap_or(0) as u16;
                        if (b as usize) < m.blocks * 32 && !tainted.iter().any(|(lo, hi)| b >= *lo && b < *hi) {
                            let got = um_is_bit_dirty(x, b);
                            let want = m.dirty.contains(&b);
                            o.count("dirty_queries", 1);
                            if got != want {
                                o.violate("dirty_tracking", format!("is-bit-dirty:{}", tag), format!("{}: op #{} is_bit_dirty({}) = {}, reference model says {}", tag, n, b, got, want));
                            }
                        }
                    }
                }
                "restart" => {
                    if let Some(x) = mask.as_mut() {
                        replica.clear();
                        um_mark_fully_dirty(x);
                        m.dirty = (0..(m.blocks * 32) as u16).collect();
                        o.count("client_restarts", 1);
                    }
                }
                "flush" => {
                    let Some(x) = mask.as_mut() else { continue };
                    let sent: Vec<u16> = m.present.iter().copied().filter(|k| m.dirty.contains(k)).collect();
                    // declared size vs bytes written (without the writer's own assert in the way)
                    let declared = um_declared_size(exp, x, guid);
                    let body = um_body(exp, x, guid);
                    if let (Some(d), Some(b)) = (declared, &body) {
                        if d as usize != b.len() {
                            o.violate("declared_size", format!("size-differs:{}", tag), format!("{}: op #{} declared size {} but {} body bytes are written ({} of {} present fields dirty)", tag, n, d, b.len(), sent.len(), m.present.len()));
                        }
                    }
                    let bytes = match guarded(|| um_send(exp, x, guid)) {
                        Err((msg, loc)) => {
                            o.violate("writer_abort", format!("{}:{}", panic_sig(&msg, &loc), tag), format!("{}: op #{} writing SMSG_UPDATE_OBJECT panicked: '{}' at {}", tag, n, msg, loc));
                            break;
                        }
                        Ok(Some(Ok(b))) => b,
                        Ok(_) => {
                            o.violate("writer_abort", format!("write-error:{}", tag), "writer returned an error".into());
                            break;
                        }
                    };
                    o.bytes += bytes.len() as u64;
                    o.count("flushes", 1);
                    if set_since_flush {
                        flushes_after_set += 1;
                    }
                    set_since_flush = false;
                    match decode_values_message(exp, &bytes) {
                        Err(e) => {
                            o.violate("wire_form", format!("wire-malformed:{}", tag), format!("{}: op #{} written message does not parse as a Values block: {}", tag, n, e));
                            break;
                        }
                        Ok((g, nblocks, blocks, vals)) => {
                            if g != guid {
                                o.violate("wire_form", format!("wire-guid:{}", tag), format!("guid on the wire {:#x}", g));
                            }
                            if nblocks != m.blocks {
                                o.violate("wire_form", format!("block-count:{}", tag), format!("{}: op #{} {} mask blocks written, reference model has {}", tag, n, nblocks, m.blocks));
                            }
                            let mut on_wire: Vec<u16> = Vec::new();
                            for (bi, b) in blocks.iter().enumerate() {
                                for bit in 0..32 {
                                    if b & (1 << bit) != 0 {
                                        on_wire.push((bi * 32 + bit) as u16);
                                    }
                                }
                            }
                            // words of structured accessors: learned from the wire, must lie inside the table range of a structured set
                            let in_tainted = |k: &u16| tainted.iter().any(|(lo, hi)| k >= lo && k < hi);
                            for (k, v) in on_wire.iter().zip(vals.iter()) {
                                if in_tainted(k) && !(m.present.contains(k) && m.value.get(k) == Some(v)) {
                                    m.touch(*k, *v, false);
                                }
                            }
                            let fresh_struct = structs.values().any(|x| x.1);
                            if fresh_struct && !on_wire.iter().any(|k| in_tainted(k)) {
                                o.violate("wire_form", format!("struct-not-sent:{}", tag), format!("{}: op #{} a structured accessor was set since the last flush but none of its words is on the wire", tag, n));
                            }
                            let on_wire_plain: Vec<u16> = on_wire.iter().copied().filter(|k| !in_tainted(k)).collect();
                            let sent: Vec<u16> = sent.iter().copied().filter(|k| !in_tainted(k)).collect();
                            let on_wire_all = on_wire.clone();
                            let on_wire = on_wire_plain;
                            let vals_all = vals.clone();
                            let vals: Vec<u32> = on_wire_all.iter().zip(vals_all.iter()).filter(|(k, _)| !in_tainted(k)).map(|(_, v)| *v).collect();
                            if on_wire != sent {
                                let extra: Vec<&u16> = on_wire.iter().filter(|k| !sent.contains(k)).collect();
                                let missing: Vec<&u16> = sent.iter().filter(|k| !on_wire.contains(k)).collect();
                                o.violate("wire_form", format!("mask-bits:{}:{}", tag, if !missing.is_empty() { "missing" } else { "extra" }), format!("{}: op #{} mask bits differ from present AND dirty: missing {:?}, extra {:?}", tag, n, missing, extra));
                            } else {
                                for (k, v) in on_wire.iter().zip(vals.iter()) {
                                    if m.value.get(k) != Some(v) {
                                        o.violate("wire_form", format!("wire-value:{}", tag), format!("{}: op #{} field index {} carries {:#x}, reference model holds {:#x?}", tag, n, k, v, m.value.get(k)));
                                        break;
                                    }
                                }
                            }
                            // client side
                            for (k, v) in on_wire_all.iter().zip(vals_all.iter()) {
                                replica.insert(*k, *v);
                            }
                            if on_wire_all.contains(&2) {
                                match guarded(|| um_receive(exp, &bytes)) {
                                    Err((msg, loc)) => {
                                        o.violate("decode_written_form", format!("{}:{}", panic_sig(&msg, &loc), tag), format!("{}: decoding the written form panicked: '{}' at {}", tag, msg, loc));
                                    }
                                    Ok(Err(e)) => {
                                        o.violate("decode_written_form", format!("decode-error:{}", tag), format!("{}: op #{} the library does not decode the form it wrote: {}", tag, n, e));
                                    }
                                    Ok(Ok((g2, rx))) => {
                                        o.count("decoded_by_library", 1);
                                        if um_kind(&rx) != kind {
                                            o.violate("decode_written_form", format!("decode-kind:{}", tag), format!("{}: op #{} the written {} object is decoded as {}", tag, n, kind, um_kind(&rx)));
                                        }
                                        for ((which, idx), (set, fresh)) in structs.iter() {
                                            if *fresh {
                                                if let Some(got) = um_struct_get(exp, &rx, which, *idx) {
                                                    if &got != set {
                                                        o.violate("decode_written_form", format!("decoded-struct:{}:{}", tag, which), format!("{}: op #{} {} index {} reads {} on the decoded object, {} was set", tag, n, which, idx, got, set));
                                                    }
                                                }
                                            }
                                        }
                                        if g2 != guid {
                                            o.violate("decode_written_form", format!("decode-guid:{}", tag), "guid differs after decode".into());
                                        }
                                        // exactly the written fields: re-encoding the decoded mask gives the same block
                                        match um_body(exp, &rx, guid) {
                                            Some(b2) if Some(&b2) == body.as_ref() => {}
                                            _ => o.violate("decode_written_form", format!("decode-differs:{}", tag), format!("{}: op #{} the decoded mask re-encodes differently from what was written", tag, n)),
                                        }
                                        // and the typed getters of the decoded object return the sent values
                                        let sent_vals: BTreeMap<u16, u32> = on_wire_all.iter().copied().zip(vals_all.iter().copied()).collect();
                                        for (k2, f, t) in um_setters(exp).iter().filter(|s| s.0 == kind).take(400) {
                                            let _ = k2;
                                            let Some(u) = self.lookup(exp, &kind, f) else { continue };
                                            if (*t == "G" || *t == "SG") && sent_vals.contains_key(&u.offset) != sent_vals.contains_key(&(u.offset + 1)) {
                                                continue;
                                            }
                                            let want = expect_got(t, &sent_vals, u.offset);
                                            if let Some(got) = um_get(exp, &rx, f, 0) {
                                                if got != want {
                                                    o.violate("decode_written_form", format!("decoded-getter:{}:{}", tag, f), format!("{}: op #{} getter {} on the decoded object returns {:?}, the block carried {:?}", tag, n, f, got, want));
                                                    break;
                                                }
                                            }
                                        }
                                    }
                                }
                            }
                            // after a restart + mark_fully_dirty the replica must hold every present field
                            if m.dirty.len() == m.blocks * 32 {
                                for k in &m.present {
                                    if replica.get(k) != m.value.get(k) {
                                        o.violate("replica_convergence", format!("replica:{}", tag), format!("{}: op #{} after a full-dirty flush the replica lacks field index {}", tag, n, k));
                                        break;
                                    }
                                }
                                o.count("full_flushes", 1);
                            }
                        }
                    }
                    um_dirty_reset(x);
                    m.dirty.clear();
                    for v in structs.values_mut() {
                        v.1 = false;
                    }
                    last_op_was_reset = true;
                    if !o.violations.is_empty() {
                        break;
                    }
                }
                _ => {}
            }
        }
        o.count(&format!("kind_{}", tag), 1);
        for v in &o.violations {
            log.str(&v.sig);
        }
        log.u64(m.present.len() as u64);
        log.u64(m.blocks as u64);
        for (k, v) in &m.value {
            log.u64(*k as u64);
            log.u64(*v as u64);
        }
        o.log_hash = log.0;
        o.nontrivial = flushes_after_set > 0;
        o
    }

    fn shrink(&self, sc: &Value) -> Vec<Value> {
        let ops = sc["ops"].as_array().cloned().unwrap_or_default();
        let mut out = Vec::new();
        if ops.len() > 2 {
            // drop halves, then single operations
            for (a, b) in [(0, ops.len() / 2), (ops.len() / 2, ops.len())] {
                let mut s = sc.clone();
                let mut v = ops.clone();
                v.drain(a..b);
                if !v.iter().any(|x| x["op"] == "finalize") {
                    v.insert(0, json!({"op": "finalize"}));
                }
                s["ops"] = Value::Array(v);
                out.push(s);
            }
        }
        for i in 0..ops.len().min(60) {
            if ops[i]["op"] == "finalize" {
                continue;
            }
            let mut s = sc.clone();
            let mut v = ops.clone();
            v.remove(i);
            s["ops"] = Value::Array(v);
            out.push(s);
        }
        out
    }

    fn extra_evidence(&self) -> Value {
        let overlaps: Vec<String> = Exp::ALL.iter().flat_map(|e| ["PLAYER_VISIBLE_ITEM", "PLAYER_SKILL_INFO"].into_iter().filter(|t| !self.struct_range_is_exclusive(*e, t)).map(|t| format!("{}:{}", e.name(), t)).collect::<Vec<_>>()).collect();
        json!({"structured_accessors_not_exercised_because_table_ranges_overlap": overlaps,"accessors_with_standard_signature": Exp::ALL.iter().map(|e| (e.name().to_string(), um_setters(*e).len())).collect::<BTreeMap<_, _>>(),
               "accessor_functions_skipped_nonstandard_signature": Exp::ALL.iter().map(|e| (e.name().to_string(), um_skipped(*e))).collect::<BTreeMap<_, _>>(),
               "table_fields": Exp::ALL.iter().map(|e| (e.name().to_string(), self.table(*e).len())).collect::<BTreeMap<_, _>>()})
    }
}
