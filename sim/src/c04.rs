//! C04 — out-of-domain values are rejected, never silently reinterpreted.
//! Targeted in-flight alterations with a positive obligation: the reader must return an error,
//! and for enum fields and opcodes the error must carry the offending number.

use crate::c03::*;
use crate::core::*;
use crate::fault::undeclared_values;
use crate::model::*;
use crate::pipe::{Schedule, SimReader};
use crate::rng::{Fnv, Rng};
use crate::sess::*;
use crate::world::*;
use crate::wowm::{ArrLen, Container, Member, TypeRef};
use serde_json::{json, Value};

pub const ESLOTS: u64 = 48;

pub struct C04 {
    pub ctx: AllCtx,
    cases: Vec<Case>,
    /// (login version or none, exp, dir) -> defined opcodes
    opsets: Vec<(Option<u8>, Exp, Dir, Vec<u32>)>,
    /// value sweep: one site per (target, enum definer): (case index, field path, undeclared values 0..=0xFF / 0..=0x1FF + specials)
    vsites: Vec<(usize, u64, String, Vec<u64>)>,
    v_total: u64,
    /// per case: frames chosen greedily so that every enum-typed field path and every branch token the model reaches occurs
    covers: std::sync::Mutex<std::collections::HashMap<usize, std::sync::Arc<Vec<Frame>>>>,
    /// E/L enumeration: rows (case index, cover frame number, first index, E slots, L slots)
    table_quick: std::sync::OnceLock<(Vec<(usize, usize, u64, u64, u64, bool)>, u64)>,
    table_thorough: std::sync::OnceLock<(Vec<(usize, usize, u64, u64, u64, bool)>, u64)>,
}

fn width(ty: &str) -> Option<usize> {
    Some(match ty {
        "u8" | "i8" | "Bool" | "Level" => 1,
        "u16" | "i16" | "Level16" | "Spell16" | "u16_be" => 2,
        "u32" | "i32" | "f32" | "Bool32" | "Gold" | "Seconds" | "Milliseconds" | "Spell" | "Item" | "Level32" | "DateTime" | "IpAddress" | "Population" | "u32_be" | "i32_be" | "f32_be" => 4,
        "u64" | "i64" | "Guid" | "u64_be" => 8,
        "u48" => 6,
        _ => return None,
    })
}

/// Some(n) if every canonical encoding of the container has exactly n bytes
fn fixed_size(m: &Model, c: &Container, depth: usize) -> Option<usize> {
    if depth > 8 || crate::wowm::tag(&c.tags, "compressed") == Some("true") {
        return None;
    }
    let mut n = 0usize;
    for mem in &c.members {
        match mem {
            Member::Field(f) => {
                let one = |tn: &str| -> Option<usize> {
                    if let Some(w) = width(tn) {
                        return Some(w);
                    }
                    if let Some(d) = m.definers.get(tn) {
                        return width(f.upcast.as_deref().unwrap_or(&d.base));
                    }
                    if let Some(s) = m.containers.get(tn) {
                        return fixed_size(m, s, depth + 1);
                    }
                    None
                };
                match &f.ty {
                    TypeRef::Named(tn) => n += one(tn)?,
                    TypeRef::Array(tn, ArrLen::Fixed(k)) => {
                        if crate::wowm::tag(&f.tags, "compressed") == Some("true") {
                            return None;
                        }
                        n += one(tn)? * *k as usize
                    }
                    _ => return None,
                }
            }
            _ => return None,
        }
    }
    Some(n)
}

impl C04 {
    pub fn new() -> C04 {
        let ctx = AllCtx::new();
        let cases = all_cases(&ctx);
        let mut opsets = Vec::new();
        for (v, m) in &ctx.login {
            for d in [Dir::Client, Dir::Server] {
                opsets.push((Some(*v), Exp::Vanilla, d, m.messages_dir(d).iter().filter_map(|c| c.opcode.map(|o| o as u32)).collect()));
            }
        }
        for e in Exp::ALL {
            for d in [Dir::Client, Dir::Server] {
                opsets.push((None, e, d, ctx.world.model(e).messages_dir(d).iter().filter_map(|c| c.opcode.map(|o| o as u32)).collect()));
            }
        }
        // value sweep sites
        let master = env_u64("VERIF_SEED", 1);
        let mut seen = std::collections::BTreeSet::new();
        let mut vsites = Vec::new();
        for (ci, case) in cases.iter().enumerate() {
            // several shapes per message, so that fields inside optional blocks and branches are found
            for shape in 0..6u64 {
                let mut wl = Rng::new(crate::rng::run_seed(master.wrapping_add(shape), &case.label(), 0xC04));
                let Some(f) = encode_case(&ctx, case, &mut wl, &Knobs::default()) else { continue };
                for fld in &f.fields {
                    if let FKind::Enum { definer, declared, .. } = &fld.kind {
                        let key = (case.login, if case.login.is_some() { Exp::Vanilla } else { case.exp }, definer.clone(), fld.len);
                        if !seen.insert(key) {
                            continue;
                        }
                        let max = if fld.len >= 8 { u64::MAX } else { (1u64 << (fld.len * 8)) - 1 };
                        let top = if fld.len == 1 { 0xFF } else { 0x1FF };
                        let mut vals: Vec<u64> = (0..=top).filter(|v| !declared.contains(v)).collect();
                        let mut specials = vec![max, max - 1, max >> 1, (max >> 1) + 1, 0xFF, 0x100, 0x7FFF, 0x8000, 0xFFFF, 0x1_0000, 0xFF_FFFF, 0x100_0000, 0x7FFF_FFFF, 0x8000_0000, 0xFFFF_FFFF, 0x1_0000_0000];
                        for d in declared.iter().take(8) {
                            for bit in [8u32, 16, 24, 31, 32, 63] {
                                specials.push(d | (1u64 << bit));
                            }
                        }
                        for sp in specials {
                            let sp = sp & max;
                            if !declared.contains(&sp) && !vals.contains(&sp) {
                                vals.push(sp);
                            }
                        }
                        vsites.push((ci, shape, fld.path.clone(), vals));
                    }
                }
            }
        }
        let v_total = vsites.iter().map(|x| x.3.len() as u64).sum();
        C04 { ctx, cases, opsets, vsites, v_total, covers: std::sync::Mutex::new(std::collections::HashMap::new()), table_quick: std::sync::OnceLock::new(), table_thorough: std::sync::OnceLock::new() }
    }
    fn o_sites(&self) -> u64 {
        self.opsets.iter().map(|s| if s.0.is_some() { 256 } else { 0x600 }).sum()
    }
}

fn number_matches(detail: &str, injected: u64, len: usize) -> bool {
    let Ok(v) = detail.parse::<i128>() else { return false };
    if v == injected as i128 {
        return true;
    }
    // signed enums report the sign-extended value
    let bits = len * 8;
    if bits < 64 {
        let sign = 1i128 << (bits - 1);
        let ext = ((injected as i128) ^ sign) - sign;
        if v == ext {
            return true;
        }
    } else if v == (injected as i64) as i128 {
        return true;
    }
    false
}

impl C04 {
    /// frames of one case that together contain every enum-typed field path (array indices normalised) and every
    /// branch / enumerator token reachable within 30 model-peer candidates; at most 6 frames, cached per process
    fn cover(&self, ci: usize, master: u64) -> std::sync::Arc<Vec<Frame>> {
        if let Some(v) = self.covers.lock().unwrap().get(&ci) {
            return v.clone();
        }
        let case = &self.cases[ci];
        let mut cands: Vec<(Frame, Vec<String>)> = Vec::new();
        for k in 0..32u64 {
            let mut wl = Rng::new(crate::rng::run_seed(master.wrapping_add(k << 24), &case.label(), 0xC04C));
            let knobs = match k % 4 {
                1 => Knobs { take_optional: Some(true), ..Knobs::default() },
                2 => Knobs { max_arr: 5, ..Knobs::default() },
                _ => Knobs::default(),
            };
            let Some(f) = encode_case(&self.ctx, case, &mut wl, &knobs) else { continue };
            if f.plain.len() > 8000 {
                continue;
            }
            // tokens: branch / enumerator choices of the frame, and every enum-typed field path (array indices normalised)
            // together with the enumerator tokens of the frame (the same path can sit in different arms of the reader)
            let shape_tokens: Vec<String> = f.shape.split(',').filter(|t| !t.is_empty()).map(|t| t.to_string()).collect();
            let mut tokens = shape_tokens.clone();
            for x in f.fields.iter().filter(|x| matches!(x.kind, FKind::Enum { .. })) {
                let norm: String = x.path.chars().filter(|c| !c.is_ascii_digit()).collect();
                tokens.push(format!("E:{}", norm));
            }
            cands.push((f, tokens));
        }
        let mut kept: Vec<Frame> = Vec::new();
        let mut seen: std::collections::BTreeSet<String> = std::collections::BTreeSet::new();
        while kept.len() < 8 && !cands.is_empty() {
            // best first: the candidate that adds the most unseen tokens
            let (bi, gain) = cands.iter().enumerate().map(|(i, (_, t))| (i, t.iter().filter(|x| !seen.contains(*x)).collect::<std::collections::BTreeSet<_>>().len())).max_by_key(|(i, g)| (*g, usize::MAX - *i)).unwrap();
            if gain == 0 && !kept.is_empty() {
                break;
            }
            let (f, t) = cands.remove(bi);
            for x in t {
                seen.insert(x);
            }
            kept.push(f);
        }
        let v = std::sync::Arc::new(kept);
        self.covers.lock().unwrap().insert(ci, v.clone());
        v
    }
    fn l_lengths(size: usize, max_body: usize) -> Vec<usize> {
        // lengths that alias the right one modulo 2^8 / 2^16 first (as far as the header form can express them), then the
        // lengths next to the right one, then the rest
        let mut lens: Vec<usize> = [size + 0x100, size + 0x1_0000, size + 0x2_0000, size + 0xFFFF, size + 0x1_0001].into_iter().filter(|l| *l <= max_body).collect();
        // and the right length with one more bit set, for every bit the size field has
        for k in 9..=22 {
            let l = size + (1usize << k);
            if l <= max_body && !lens.contains(&l) {
                lens.push(l);
            }
        }
        for d in 1..=(size + 8) {
            if size >= d {
                lens.push(size - d);
            }
            if d <= 8 {
                lens.push(size + d);
            }
        }
        lens
    }
    fn vals_per_field(tier: Tier) -> u64 {
        match tier {
            Tier::Quick => 3,
            Tier::Thorough => 6,
        }
    }
    fn table(&self, tier: Tier) -> &(Vec<(usize, usize, u64, u64, u64, bool)>, u64) {
        let master = env_u64("VERIF_SEED", 1);
        let cell = match tier {
            Tier::Quick => &self.table_quick,
            Tier::Thorough => &self.table_thorough,
        };
        cell.get_or_init(|| {
            let mut rows = Vec::new();
            let mut total = 0u64;
            for ci in 0..self.cases.len() {
                let case = &self.cases[ci];
                let model = model_for(&self.ctx, case);
                let fixed = if case.login.is_none() { model.message(&case.name).and_then(|c| fixed_size(model, c, 0)) } else { None };
                let cov = self.cover(ci, master);
                for (k, f) in cov.iter().enumerate() {
                    let nf = f.fields.iter().filter(|x| matches!(x.kind, FKind::Enum { .. })).count().min(96) as u64;
                    let e = nf * Self::vals_per_field(tier);
                    let l = match fixed {
                        Some(size) if k == 0 && f.plain.len() == size => (Self::l_lengths(size, crate::c02::max_expressible_body(case.exp, case.dir)).len() as u64).min(match tier {
                            Tier::Quick => 56,
                            Tier::Thorough => 400,
                        }),
                        _ => 0,
                    };
                    if e + l > 0 {
                        rows.push((ci, k, total, e, l, false));
                        total += e + l;
                    }
                    // login: the same E sites once more through the protocol-parameterised readers
                    if case.login.is_some() && e > 0 {
                        rows.push((ci, k, total, e, 0, true));
                        total += e;
                    }
                }
            }
            (rows, total)
        })
    }
}

impl Check for C04 {
    fn id(&self) -> &'static str {
        "C04"
    }
    fn level(&self) -> &'static str {
        "fault_enumeration"
    }
    fn rule(&self) -> String {
        format!("Fault sites are enumerated from the model peer's field maps. E: every enum-typed field (incl. upcast ones and ones nested in structs, arrays, conditional branches and compressed regions) of a canonical frame of every message gets, at its full wire width and in place, undeclared values (neighbours of declared values, the maximum of the width, and for upcast fields aliases of declared values modulo 2^8 and 2^16); the reader must fail with an enum error reporting exactly that number (every enum field of every cover frame of the message; the cover frames - up to 8 - are chosen best-first out of 32 model-peer candidates so that every enum-typed field path and every branch / enumerator token the model reaches occurs in one of them; {} was the fixed slot count of the first build). L: every message the model computes as constant-sized gets every body length 0..size+8 except the right one (bytes removed / zero bytes appended, header consistent); the reader must fail. O: every opcode value 0..0x600 not defined for the direction and expansion (and every undefined first byte for the 12 login opcode enums), plus aliases of the expected message's opcode above 16 bits for client messages, in front of short bodies; the reader must fail with an opcode error reporting that number. Every site is driven through the opcode-enum reader and the typed expect helper, blocking/tokio/async-std rotated per site (thorough: more shapes), over a scheduled SimPipe. Non-trivial: the altered frame was derived from a frame the library accepts unaltered; distinct = distinct event-log hashes.", ESLOTS)
    }
    fn assumptions(&self) -> Vec<String> {
        vec![
            "a field is a site only if the model resolves its type to an enum definer for that version (never a flag)".into(),
            "sites on frames the library does not accept unaltered are skipped and counted".into(),
            "constant-sizedness is computed by the model from the definition (no conditionals, variable arrays, strings or built-in variable types)".into(),
        ]
    }
    fn components(&self) -> Value {
        json!({"real": ["wow_world_messages / wow_login_messages readers (working tree)", "wow_world_base enum conversions"],
               "simulated": ["peer that alters one field / length / opcode in flight (model peer field maps)", "transport (SimPipe)", "executor"],
               "not_exercised": ["encrypted entry points (same body parsers)"]})
    }
    fn plan(&self, tier: Tier) -> (u64, u64) {
        (self.table(tier).1 + self.o_sites() + self.v_total, match tier {
            Tier::Quick => env_u64("VERIF_C04_RUNS", 20_000),
            Tier::Thorough => env_u64("VERIF_C04_RUNS", 1_000_000),
        })
    }
    fn gen(&self, i: u64, seed: u64, tier: Tier) -> Value {
        let rng = Rng::new(seed);
        let mut cf = rng.fork("config");
        let mut sr = rng.fork("schedule");
        let master = env_u64("VERIF_SEED", 1);
        let (n_enum, _) = self.plan(tier);
        let n_enum_with_v = n_enum;
        let n_enum = n_enum - self.v_total;
        let e_total = n_enum - self.o_sites();
        let fl = match i % 3 {
            0 => Flavour::Sync,
            1 => Flavour::Tokio,
            _ => Flavour::Astd,
        };
        // ---------------- V sites: every small value of every enum definer once
        if i >= n_enum && i < n_enum_with_v {
            let mut k = i - n_enum;
            for (ci, shape, path, vals) in &self.vsites {
                if k >= vals.len() as u64 {
                    k -= vals.len() as u64;
                    continue;
                }
                let case = self.cases[*ci].clone();
                let v = vals[k as usize];
                let mut wl = Rng::new(crate::rng::run_seed(master.wrapping_add(*shape), &case.label(), 0xC04));
                let Some(f) = encode_case(&self.ctx, &case, &mut wl, &Knobs::default()) else { break };
                let Some(fld) = f.fields.iter().find(|x| &x.path == path && matches!(x.kind, FKind::Enum { .. })) else { break };
                let orig = intact_stream(&case, &f);
                let mut plain = f.plain.clone();
                let le = v.to_le_bytes();
                for b in 0..fld.len.min(8) {
                    plain[fld.off + b] = le[b];
                }
                let body = body_to_wire(&plain, f.comp_start);
                let stream = match case.login {
                    Some(_) => plain.clone(),
                    None => {
                        let mut s = world_header(case.exp, case.dir, f.opcode, body.len());
                        s.extend_from_slice(&body);
                        s
                    }
                };
                let (definer, upcast) = if let FKind::Enum { definer, upcast, .. } = &fld.kind { (definer.clone(), *upcast) } else { (String::new(), false) };
                return json!({"kind": "E", "label": format!("{}:{}={:#x}", case.label(), fld.path, v), "case": case_json(&case), "field": fld.path, "definer": definer, "upcast": upcast, "value_sweep": true,
                    "orig": bytes_to_json(&orig), "stream": bytes_to_json(&stream), "number": v, "len": fld.len, "entry": if k % 2 == 0 { "enum".to_string() } else { format!("expect:{}", case.name) }, "flavour": fl.name(),
                    "sched": sched_json(&Schedule::random(&mut sr, stream.len() + 8, fl == Flavour::Sync))});
            }
            return json!({"label": "vsite", "case": case_json(&self.cases[0]), "skip": "no-site"});
        }
        // ---------------- O sites
        if i >= e_total && i < n_enum {
            let mut k = i - e_total;
            for (login, exp, dir, defined) in &self.opsets {
                let n = if login.is_some() { 256 } else { 0x600 };
                if k >= n {
                    k -= n;
                    continue;
                }
                let case0 = Case { login: *login, exp: *exp, dir: *dir, name: String::new() };
                let mut op = k as u32;
                if defined.contains(&op) {
                    // replace by a random undefined 16/32-bit value, or (client) an alias of a defined opcode above 16 bits
                    op = if login.is_none() && *dir == Dir::Client && cf.chance(1, 2) {
                        op | ((1 + cf.below(0xFFFE) as u32) << 16)
                    } else if login.is_none() {
                        0x600 + cf.below(0xFA00) as u32
                    } else {
                        loop {
                            let c = cf.below(256) as u32;
                            if !defined.contains(&c) {
                                break c;
                            }
                        }
                    };
                    if defined.contains(&op) {
                        op = 0xFFFF;
                    }
                }
                let blen = cf.below(33) as usize;
                let mut body = vec![0u8; blen];
                cf.fill(&mut body);
                let stream = match login {
                    Some(_) => {
                        let mut s = vec![op as u8];
                        s.extend_from_slice(&body);
                        s
                    }
                    None => {
                        let mut s = world_header(*exp, *dir, op, blen);
                        s.extend_from_slice(&body);
                        s
                    }
                };
                // entry: enum, or the typed helper expecting some defined message
                let model = model_for(&self.ctx, &case0);
                let msgs = model.messages_dir(*dir);
                let (entry, alias_of) = if cf.chance(1, 2) && !msgs.is_empty() {
                    let c = *cf.pick(&msgs);
                    (format!("expect:{}", c.name), c.opcode.unwrap_or(0) as u32)
                } else if login.is_some() && *dir == Dir::Client && cf.chance(1, 4) {
                    ("initial".to_string(), 0)
                } else {
                    ("enum".to_string(), 0)
                };
                // login: a third of the sites go through the protocol-parameterised readers. The typed helper must report
                // any opcode other than its own; the opcode-enum reader dispatches on the version 8 enum, so it is only
                // asked about opcodes that version 8 does not define either
                let entry = if login.is_some() && cf.chance(1, 3) {
                    let v8_defined = self.opsets.iter().find(|(l, _, d, _)| *l == Some(8) && d == dir).map(|x| x.3.contains(&op)).unwrap_or(true);
                    if let Some(n) = entry.strip_prefix("expect:") {
                        format!("expect-protocol:{}", n)
                    } else if entry == "enum" && !v8_defined {
                        "enum-protocol".to_string()
                    } else {
                        entry
                    }
                } else {
                    entry
                };
                let mut stream = stream;
                let mut op_final = op;
                if entry.starts_with("expect:") && login.is_none() && *dir == Dir::Client && cf.chance(1, 2) {
                    // alias of the expected message's opcode above 16 bits
                    op_final = alias_of | ((1 + cf.below(0xFFFE) as u32) << 16);
                    let mut s = world_header(*exp, *dir, op_final, blen);
                    s.extend_from_slice(&body);
                    stream = s;
                }
                if entry == "initial" && (op_final == 0 || op_final == 2) {
                    // defined for read_initial_message
                    op_final = 0x55;
                    stream[0] = 0x55;
                }
                return json!({"kind": "O", "label": format!("{}:opcode={:#x}", case0.label(), op_final), "case": case_json(&case0),
                    "stream": bytes_to_json(&stream), "number": op_final, "len": 4, "entry": entry, "flavour": fl.name(),
                    "sched": sched_json(&Schedule::random(&mut sr, stream.len() + 8, fl == Flavour::Sync))});
            }
        }
        // ---------------- E / L sites
        // enumerated: row of the table -> (case, cover frame, E slot or L slot); sampled: a random case, a plain draw
        let mut protocol_row = false;
        let (case, f, eslot, lslot) = if i < e_total {
            let (rows, _) = self.table(tier);
            let r = rows.partition_point(|row| row.2 + row.3 + row.4 <= i);
            let (ci, k, first, e, _l, proto) = rows[r];
            protocol_row = proto;
            let s = i - first;
            let cov = self.cover(ci, master);
            (self.cases[ci].clone(), cov[k].clone(), if s < e { Some(s) } else { None }, if s >= e { Some(s - e) } else { None })
        } else {
            let case = cf.pick(&self.cases).clone();
            let mut wl = Rng::new(crate::rng::run_seed(master.wrapping_add(seed), &case.label(), 0xC04));
            let Some(f) = encode_case(&self.ctx, &case, &mut wl, &Knobs::default()) else {
                return json!({"label": case.label(), "case": case_json(&case), "skip": "unmodelled"});
            };
            (case, f, None, None)
        };
        let enumerated = i < e_total;
        let orig = intact_stream(&case, &f);
        let enum_fields: Vec<(usize, &FieldInfo)> = f.fields.iter().enumerate().filter(|(_, x)| matches!(x.kind, FKind::Enum { .. })).collect();
        let model = model_for(&self.ctx, &case);
        let fixed = if case.login.is_none() { model.message(&case.name).and_then(|c| fixed_size(model, c, 0)) } else { None };
        if !enumerated && case.login.is_some() && cf.chance(1, 3) {
            protocol_row = true;
        }
        let entry = match (protocol_row, i % 2 == 0) {
            (false, true) => "enum".to_string(),
            (false, false) => format!("expect:{}", case.name),
            (true, true) => "enum-protocol".to_string(),
            (true, false) => format!("expect-protocol:{}", case.name),
        };
        // E site?
        let vpf = Self::vals_per_field(tier);
        let e_pick = if enumerated {
            eslot.map(|s| ((s / vpf) as usize, (s % vpf) as usize)).filter(|(fi, _)| *fi < enum_fields.len())
        } else if !enum_fields.is_empty() && cf.chance(3, 4) {
            Some((cf.below(enum_fields.len() as u64) as usize, cf.below(10) as usize))
        } else {
            None
        };
        if let Some((fi, vi)) = e_pick {
            let (_, fld) = enum_fields[fi];
            if let FKind::Enum { declared, upcast, definer } = &fld.kind {
                let vals = undeclared_values(declared, fld.len, *upcast);
                if !vals.is_empty() {
                    // undeclared_values interleaves plain candidates and (for upcast fields) aliases
                    let v = vals[vi % vals.len()];
                    let mut plain = f.plain.clone();
                    let le = v.to_le_bytes();
                    for b in 0..fld.len.min(8) {
                        plain[fld.off + b] = le[b];
                    }
                    let body = body_to_wire(&plain, f.comp_start);
                    let stream = match case.login {
                        Some(_) => plain.clone(),
                        None => {
                            let mut s = world_header(case.exp, case.dir, f.opcode, body.len());
                            s.extend_from_slice(&body);
                            s
                        }
                    };
                    return json!({"kind": "E", "label": format!("{}:{}", case.label(), fld.path), "case": case_json(&case), "field": fld.path, "definer": definer, "upcast": upcast,
                        "orig": bytes_to_json(&orig), "stream": bytes_to_json(&stream), "number": v, "len": fld.len, "entry": entry, "flavour": fl.name(),
                        "sched": sched_json(&Schedule::random(&mut sr, stream.len() + 8, fl == Flavour::Sync))});
                }
            }
        }
        // L site?
        if let Some(size) = fixed {
            if f.plain.len() == size {
                let lens = Self::l_lengths(size, crate::c02::max_expressible_body(case.exp, case.dir));
                let pick = if enumerated {
                    lslot.map(|s| s as usize).filter(|s| *s < lens.len())
                } else {
                    Some(cf.below(lens.len() as u64) as usize)
                };
                if let Some(p) = pick {
                    let l = lens[p];
                    let mut body = f.plain.clone();
                    // long bodies are kept out of the scenario: `pad_zeros` bytes are appended when it is executed
                    let pad = if l > size + 64 { l - size } else { 0 };
                    body.resize(l - pad, 0);
                    let mut s = world_header(case.exp, case.dir, f.opcode, l);
                    s.extend_from_slice(&body);
                    let sched = if pad > 0x20000 { Schedule::whole() } else { Schedule::random(&mut sr, s.len() + pad + 8, fl == Flavour::Sync) };
                    return json!({"kind": "L", "label": format!("{}:len={}", case.label(), l), "case": case_json(&case), "fixed_size": size,
                        "orig": bytes_to_json(&orig), "stream": bytes_to_json(&s), "pad_zeros": pad, "number": Value::Null, "len": 0, "entry": entry, "flavour": fl.name(),
                        "sched": sched_json(&sched)});
                }
            }
        }
        json!({"label": case.label(), "case": case_json(&case), "skip": "no-site"})
    }

    fn exec(&self, sc: &Value) -> Outcome {
        let mut o = Outcome::default();
        if let Some(s) = sc.get("skip") {
            o.count(&format!("skip_{}", s.as_str().unwrap_or("")), 1);
            return o;
        }
        let case = case_of(&sc["case"]);
        let kind = sc["kind"].as_str().unwrap_or("?").to_string();
        let entry = entry_of(&sc["entry"]);
        let entry_name = sc["entry"].as_str().unwrap_or("enum").split(':').next().unwrap_or("enum").to_string();
        let fl = flavour_of(&sc["flavour"]);
        let sched = sched_of(&sc["sched"]);
        let whole = Schedule::whole();
        let mut log = Fnv::new();
        if kind != "O" {
            // the site must sit on a frame the library accepts unaltered
            let orig = json_to_bytes(&sc["orig"]);
            let mut r = SimReader::new(&orig, &whole);
            let ok = guarded(|| read_any(&case, &entry, Flavour::Sync, &mut r, 0));
            match ok {
                Ok((Ok(_), _, _)) if r.consumed() == orig.len() => {}
                _ => {
                    o.count("skip_unaltered_frame_not_accepted", 1);
                    return o;
                }
            }
        }
        let mut stream = json_to_bytes(&sc["stream"]);
        let pad = sc["pad_zeros"].as_u64().unwrap_or(0) as usize;
        stream.resize(stream.len() + pad, 0);
        let mut r = SimReader::new(&stream, &sched);
        let budget = 8 * stream.len() as u64 + 4096 + 16 * sched.steps.len() as u64;
        let res = guarded(|| read_any(&case, &entry, fl, &mut r, budget));
        o.bytes += stream.len() as u64;
        o.count(&format!("site_{}", kind), 1);
        if sc["value_sweep"] == true {
            o.count("site_E_value_sweep", 1);
        }
        o.count(&format!("entry_{}_{}", entry_name, fl.name()), 1);
        let number = sc["number"].as_u64();
        let len = sc["len"].as_u64().unwrap_or(4) as usize;
        match res {
            Err((msg, loc)) => {
                // a panic is C03's finding; it is also not "an error reporting the number"
                o.violate("rejected_with_error", format!("{}:panic:{}", kind, panic_sig(&msg, &loc)), format!("{}: reader panicked instead of returning an error: '{}' at {}", sc["label"].as_str().unwrap_or(""), msg, loc));
            }
            Ok((result, polls, exceeded)) => {
                o.ticks += polls;
                if exceeded {
                    o.violate("bounded_liveness", format!("read-stall:{}", fl.name()), "reader did not return within the step budget".into());
                }
                match result {
                    Ok(v) => {
                        let what = match kind.as_str() {
                            "E" => format!("E:accepted:{}:{}:{}{}", case.label(), sc["field"].as_str().unwrap_or(""), entry_name, if sc["upcast"] == true { ":upcast" } else { "" }),
                            "L" => format!("L:accepted:{}:{}", case.label(), entry_name),
                            _ => format!("O:accepted:{}:{}:{}", case.label().split(':').take(2).collect::<Vec<_>>().join(":"), entry_name, if number.unwrap_or(0) > 0xFFFF { "above16bit" } else { "16bit" }),
                        };
                        o.violate("rejected_with_error", what, format!("{} [{}]: altered frame was decoded into a message instead of an error: {}", sc["label"].as_str().unwrap_or(""), kind, v.chars().take(200).collect::<String>()));
                        log.u8(1);
                    }
                    Err(e) if e.outer == "HARNESS" => {
                        o.count("entry_unavailable", 1);
                        return o;
                    }
                    Err(e) => {
                        log.str(&e.short());
                        match kind.as_str() {
                            "E" => {
                                let good = e.outer == "Parse" && e.kind == "Enum" && number.map(|n| number_matches(&e.detail, n, len)).unwrap_or(false);
                                if !good {
                                    o.violate("error_reports_number", format!("E:wrong-error:{}:{}:{}", case.label(), sc["field"].as_str().unwrap_or(""), entry_name), format!("{}: expected an enum error reporting {} but got {}", sc["label"].as_str().unwrap_or(""), number.unwrap_or(0), e.short()));
                                }
                            }
                            "O" => {
                                let good = e.outer == "Opcode" && number.map(|n| e.detail == n.to_string()).unwrap_or(false);
                                if !good {
                                    o.violate("error_reports_number", format!("O:wrong-error:{}:{}:{}", case.label().split(':').take(2).collect::<Vec<_>>().join(":"), entry_name, if number.unwrap_or(0) > 0xFFFF { "above16bit" } else { "16bit" }), format!("{}: expected an opcode error reporting {} but got {}", sc["label"].as_str().unwrap_or(""), number.unwrap_or(0), e.short()));
                                }
                            }
                            _ => {}
                        }
                    }
                }
            }
        }
        o.count("pendings", r.stats.pendings);
        o.count("interrupts", r.stats.interrupts);
        log.u64(r.log.0);
        log.u64(o.violations.len() as u64);
        o.log_hash = log.0;
        o.nontrivial = true;
        o
    }

    fn extra_evidence(&self) -> Value {
        json!({"messages_the_model_peer_cannot_encode": unmodelled_cases(&self.ctx, &self.cases),
               "enumerated_E_L_rows_quick": self.table(Tier::Quick).0.len()})
    }
    fn shrink(&self, sc: &Value) -> Vec<Value> {
        let mut out = Vec::new();
        for t in shrink_sched(&sched_of(&sc["sched"])).into_iter().take(4) {
            let mut s = sc.clone();
            s["sched"] = sched_json(&t);
            out.push(s);
        }
        if sc["flavour"] != "sync" {
            let mut s = sc.clone();
            s["flavour"] = json!("sync");
            out.push(s);
        }
        out
    }
}
